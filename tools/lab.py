#!/usr/bin/env python3
"""lab.py <patch-id|path-to-patch.diff> [Cxx ...]: run property rules over a scratch copy of /repo with one patch applied,
without touching /repo or /verif/evidence. Facts are cached per tree hash, so re-running after a rule edit is fast.
  tools/lab.py neutralx-A1 C01 C02        tools/lab.py seeded-C10-r2-...   (all 20 properties when none is given)"""
import importlib
import os
import shutil
import subprocess
import sys

HERE = os.path.dirname(os.path.dirname(os.path.abspath(__file__)))
sys.path.insert(0, HERE)
sys.path.insert(0, os.path.join(HERE, "tools"))
os.chdir(HERE)
from rules import build, engine  # noqa: E402
import mutants as M  # noqa: E402


def main():
    pid = sys.argv[1]
    props = [a for a in sys.argv[2:] if not a.startswith("-")] or M.ALL
    verbose = "-v" in sys.argv
    cat = {m["id"]: m for m in M.load()}
    m = cat.get(pid) or ({"id": os.path.basename(os.path.dirname(pid)), "patch": os.path.abspath(pid)} if os.path.exists(pid) else None)
    if m is None and pid != "clean":
        print("unknown id", pid)
        return 2
    scratch = "/tmp/lab-%s" % (pid.replace("/", "_"))
    shutil.rmtree(scratch, ignore_errors=True)
    os.makedirs(scratch)
    try:
        subprocess.run(["rsync", "-a", "--exclude", "target", "--exclude", ".git", build.REPO + "/", scratch + "/"], check=True)
        subprocess.run("git init -q && git add -A && git -c user.email=v@v -c user.name=v commit -qm base", shell=True, cwd=scratch, check=True)
        if m is not None:
            err = M.apply(m, scratch)
            if err:
                print("cannot apply:", err)
                return 2
        rc = 0
        for p in props:
            ctx = engine.Ctx(p, "quick", repo=scratch)
            mod = importlib.import_module("rules.props.%s" % p.lower())
            try:
                mod.check(ctx)
            except build.BuildError as e:
                print("%s: BUILD ERROR %s" % (p, e))
                rc = 2
                continue
            except Exception as e:  # a crashing rule is a defect of the checker
                import traceback
                traceback.print_exc()
                print("%s: CHECKER CRASH %r" % (p, e))
                rc = 3
                continue
            known = {k["key"] for k in engine.load_known() if k.get("status") == "known"}
            v = [o for o in ctx.obs if o["status"] == "violated" and o["key"] not in known]
            print("%s: %d obligations, %d violated" % (p, len(ctx.obs), len(v)))
            for o in v:
                print("   %s | %s | %s -- %s" % (o["key"], o["site"], o["rule"][:110], (o["detail"] if verbose else o["detail"][:260])))
                rc = max(rc, 1)
        return rc
    finally:
        shutil.rmtree(scratch, ignore_errors=True)


if __name__ == "__main__":
    sys.exit(main())
