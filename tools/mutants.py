#!/usr/bin/env python3
"""Sensitivity self-test: apply one catalogue edit to /repo, run the checks, restore.

  tools/mutants.py run [ids...]        apply each mutant, run all checks (or --props C01,C02), report who fires
  tools/mutants.py tests [ids...]      in a scratch worktree: does the mutant compile and keep the 47 tests green?
  tools/mutants.py export              write mutants/<id>.patch for every catalogue entry

Catalogue: mutants/catalogue.json  [{id, file, find, replace, expect: [props], kind: mutant|neutral, note}]
Seeded (sub-agent) changes: seeded/<id>/patch.diff with meta.json {"property": ..}
"""
import json
import os
import re
import subprocess
import sys

HERE = os.path.dirname(os.path.dirname(os.path.abspath(__file__)))
REPO = "/repo"
CAT = os.path.join(HERE, "mutants", "catalogue.json")
ALL = ["C%02d" % i for i in range(1, 21)]


def sh(cmd, cwd=None, env=None):
    return subprocess.run(cmd, shell=True, cwd=cwd, capture_output=True, text=True, env=env)


def load():
    cat = json.load(open(CAT)) if os.path.exists(CAT) else []
    sd = os.path.join(HERE, "seeded")
    if os.path.isdir(sd):
        for d in sorted(os.listdir(sd)):
            p = os.path.join(sd, d, "patch.diff")
            m = os.path.join(sd, d, "meta.json")
            if os.path.exists(p):
                meta = json.load(open(m)) if os.path.exists(m) else {}
                cat.append({"id": "seeded-" + d, "patch": p, "expect": meta.get("expect", [meta.get("property")] if meta.get("property") else []),
                            "kind": "mutant", "note": meta.get("summary", "")})
    nd = os.path.join(HERE, "neutral")
    if os.path.isdir(nd):
        for d in sorted(os.listdir(nd)):
            p = os.path.join(nd, d, "patch.diff")
            if os.path.exists(p):
                cat.append({"id": "neutralx-" + d, "patch": p, "expect": [], "kind": "neutral",
                            "note": "behaviour-preserving refactoring written by a sub-agent"})
    return cat


def apply(m, root):
    if "patch" in m:
        r = sh("git apply --whitespace=nowarn %s" % m["patch"], cwd=root)
        if r.returncode != 0:
            return "patch does not apply: " + r.stderr.strip()[:200]
        return None
    edits = m["edits"] if "edits" in m else [m]
    for e in edits:
        p = os.path.join(root, e["file"])
        s = open(p).read()
        n = s.count(e["find"])
        if n != 1:
            return "anchor text found %d times in %s" % (n, e["file"])
        open(p, "w").write(s.replace(e["find"], e["replace"]))
    return None


def restore(root):
    sh("git checkout -- . && git clean -fdq -e target", cwd=root)


def run_checks(props):
    fired = {}
    for p in props:
        r = sh("./verif check %s" % p, cwd=HERE)
        if r.returncode == 1 and " violated " in r.stdout:
            fired[p] = [l for l in r.stdout.splitlines() if " violated " in l][:3]
        elif r.returncode != 0:
            fired[p] = ["ERROR rc=%d %s" % (r.returncode, (r.stdout + r.stderr)[-300:])]
    return fired


def cmd_run(ids, props):
    cat = [m for m in load() if not ids or m["id"] in ids]
    assert sh("git status --porcelain --untracked-files=no", cwd=REPO).stdout.strip() == "", "/repo has local edits"
    res = {}
    try:
        for m in cat:
            err = apply(m, REPO)
            if err:
                print("%-34s SKIPPED (%s)" % (m["id"], err))
                restore(REPO)
                res[m["id"]] = {"skipped": err}
                continue
            use = props
            if props == ["expect"]:
                use = ALL if m.get("kind") == "neutral" or not m.get("expect") else sorted(set(m["expect"]))
            fired = run_checks(use)
            restore(REPO)
            exp = set(m.get("expect", []))
            got = set(k for k, v in fired.items() if not v[0].startswith("ERROR"))
            errs = [k for k, v in fired.items() if v[0].startswith("ERROR")]
            if m.get("kind") == "neutral":
                verdict = "OK (silent)" if not got and not errs else "FALSE ALARM"
            else:
                verdict = "CAUGHT" if (exp & got) or (not exp and got) else ("BUILD-ERROR" if errs else "MISSED")
            print("%-34s %-12s fired=%s expected=%s" % (m["id"], verdict, sorted(got), sorted(exp)))
            if verdict in ("FALSE ALARM", "MISSED", "BUILD-ERROR"):
                for k, v in fired.items():
                    for l in v[:2]:
                        print("      %s: %s" % (k, l[:260]))
            res[m["id"]] = {"verdict": verdict, "fired": {k: v for k, v in fired.items()}, "expected": sorted(exp)}
    finally:
        restore(REPO)
    json.dump(res, open(os.path.join(HERE, "mutants", "last_run.json"), "w"), indent=1)
    # the evidence files were rewritten by the runs on mutated trees: regenerate them from the unchanged tree
    bad = run_checks(ALL)
    if bad:
        print("WARNING: checks fire on the restored tree: %s" % sorted(bad))
    return res


def cmd_tests(ids):
    wt = "/tmp/wt-mutants"
    if not os.path.isdir(wt):
        sh("git worktree add -q --detach %s HEAD" % wt, cwd=REPO)
    sh("git checkout -q --detach %s" % sh("git rev-parse HEAD", cwd=REPO).stdout.strip(), cwd=wt)
    env = dict(os.environ, CARGO_TARGET_DIR=wt + "/target", CARGO_NET_OFFLINE="true")
    out = {}
    resf = os.path.join(HERE, "mutants", "tests_status.json")
    if os.path.exists(resf):
        out = json.load(open(resf))
    for m in load():
        if ids and m["id"] not in ids:
            continue
        if not ids and m["id"] in out and out[m["id"]].get("tests") == "47 passed":
            continue
        restore(wt)
        err = apply(m, wt)
        if err:
            out[m["id"]] = {"tests": "skipped: " + err}
            print(m["id"], out[m["id"]])
            continue
        r = sh("cargo nextest run --workspace --no-fail-fast --offline 2>&1 | tail -5", cwd=wt, env=env)
        s = re.search(r"(\d+) tests run: (\d+) passed", r.stdout)
        out[m["id"]] = {"tests": "%s passed" % s.group(2) if s and s.group(1) == s.group(2) else "FAIL: " + r.stdout[-300:]}
        print(m["id"], out[m["id"]]["tests"][:120])
        json.dump(out, open(resf, "w"), indent=1)
    restore(wt)


def cmd_export():
    for m in load():
        if "patch" in m:
            continue
        err = apply(m, REPO)
        if err:
            print(m["id"], "SKIP", err)
            restore(REPO)
            continue
        d = sh("git diff", cwd=REPO).stdout
        restore(REPO)
        open(os.path.join(HERE, "mutants", m["id"] + ".patch"), "w").write(d)


if __name__ == "__main__":
    a = sys.argv[1:]
    props = ALL
    if "--props" in a:
        i = a.index("--props")
        props = a[i + 1].split(",")
        a = a[:i] + a[i + 2:]
    if a and a[0] == "run":
        cmd_run(a[1:], props)
    elif a and a[0] == "tests":
        cmd_tests(a[1:])
    elif a and a[0] == "export":
        cmd_export()
    else:
        print(__doc__)
