#!/usr/bin/env python3
"""import_neutral.py <worktree> <prefix>: copy NEUTRAL/<i>/{patch.diff,notes.md} of a sub-agent worktree to neutral/<prefix><i>/ after
checking that the patch applies to /repo's HEAD."""
import os, shutil, subprocess, sys
HERE = os.path.dirname(os.path.dirname(os.path.abspath(__file__)))
wt, prefix = sys.argv[1], sys.argv[2]
for i in sorted(os.listdir(os.path.join(wt, "NEUTRAL"))):
    d = os.path.join(wt, "NEUTRAL", i)
    pf = os.path.join(d, "patch.diff")
    if not os.path.isdir(d) or not os.path.exists(pf):
        continue
    r = subprocess.run(["git", "-C", "/repo", "apply", "--check", pf], capture_output=True, text=True)
    if r.returncode:
        print(prefix + i, "DOES NOT APPLY", r.stderr.strip()[:200]); continue
    dst = os.path.join(HERE, "neutral", prefix + i)
    os.makedirs(dst, exist_ok=True)
    shutil.copy(pf, dst)
    if os.path.exists(os.path.join(d, "notes.md")):
        shutil.copy(os.path.join(d, "notes.md"), dst)
    print(prefix + i, "imported")
