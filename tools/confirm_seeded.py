#!/usr/bin/env python3
"""Confirm a sub-agent's seeded change in a scratch worktree and, if it holds up, keep it under /verif/seeded/<id>/.

  tools/confirm_seeded.py <dir with patch.diff + demo .rs + notes.md> <id> <property> [--crate fastrace] [--kind example|test]
Confirms: demo passes on the clean tree; with the patch the workspace builds, the 47 tests pass, the demo fails."""
import json
import os
import re
import shutil
import subprocess
import sys

HERE = os.path.dirname(os.path.dirname(os.path.abspath(__file__)))
WT = os.environ.get("CONFIRM_WT", "/tmp/wt-confirm")


def sh(cmd, cwd=None, timeout=1800):
    env = dict(os.environ, CARGO_TARGET_DIR=WT + "/target", CARGO_NET_OFFLINE="true")
    try:
        r = subprocess.run(cmd, shell=True, cwd=cwd, capture_output=True, text=True, env=env, timeout=timeout)
        return r.returncode, (r.stdout + r.stderr)
    except subprocess.TimeoutExpired as e:
        return 124, "TIMEOUT " + str(e)


def main():
    src, sid, prop = sys.argv[1], sys.argv[2], sys.argv[3]
    crate = sys.argv[sys.argv.index("--crate") + 1] if "--crate" in sys.argv else "fastrace"
    if not os.path.isdir(WT):
        subprocess.run("git worktree add -q --detach %s HEAD" % WT, shell=True, cwd="/repo", check=True)
    head = subprocess.run("git rev-parse HEAD", shell=True, cwd="/repo", capture_output=True, text=True).stdout.strip()
    sh("git checkout -q --detach %s && git checkout -- . && git clean -fdq -e target" % head, cwd=WT)
    demos = [f for f in os.listdir(src) if f.endswith(".rs")]
    assert demos, "no demo"
    log = {}
    kind = sys.argv[sys.argv.index("--kind") + 1] if "--kind" in sys.argv else "example"
    sub = "tests" if kind == "test" else "examples"
    os.makedirs(os.path.join(WT, crate, sub), exist_ok=True)
    feat = (" --features " + sys.argv[sys.argv.index("--features") + 1]) if "--features" in sys.argv else ""
    for d in demos:
        shutil.copy(os.path.join(src, d), os.path.join(WT, crate, sub, d))
    names = [d[:-3] for d in demos]

    def run_demos(tag):
        res = {}
        for n in names:
            rel = " --release" if "--release" in sys.argv else ""
            run = ("cargo test --offline -q" + rel + " --test %s%s" if kind == "test" else "cargo run --offline -q" + rel + " --example %s%s") % (n, feat)
            rc, out = sh(run + " 2>&1 | tail -15", cwd=os.path.join(WT, crate), timeout=900)
            rc2, out2 = sh(run + " >/dev/null 2>&1; echo rc=$?", cwd=os.path.join(WT, crate), timeout=900)
            m = re.search(r"rc=(\d+)", out2)
            res[n] = {"rc": int(m.group(1)) if m else rc2, "tail": out[-600:]}
        log[tag] = res
        return res
    scaffold = os.path.join(src, "scaffold.diff")
    if os.path.exists(scaffold):
        rc, out = sh("git apply --whitespace=nowarn %s" % scaffold, cwd=WT)
        assert rc == 0, "scaffold does not apply: " + out
    clean = run_demos("clean_tree")
    ok_clean = all(v["rc"] == 0 for v in clean.values())
    rc, out = sh("git apply --whitespace=nowarn %s" % os.path.join(src, "patch.diff"), cwd=WT)
    assert rc == 0, "patch does not apply: " + out
    if kind == "test":   # an integration test file would add to the 47: keep it out of the pinned run
        for d in demos:
            os.rename(os.path.join(WT, crate, sub, d), os.path.join(WT, d + ".aside"))
    rc, out = sh("cargo nextest run --workspace --no-fail-fast --offline 2>&1 | tail -4", cwd=WT)
    if kind == "test":
        for d in demos:
            os.rename(os.path.join(WT, d + ".aside"), os.path.join(WT, crate, sub, d))
    m = re.search(r"(\d+) tests run: (\d+) passed", out)
    tests_ok = bool(m) and m.group(1) == m.group(2) == "47"
    log["tests_with_change"] = out[-300:]
    changed = run_demos("changed_tree")
    ok_changed = all(v["rc"] != 0 for v in changed.values())
    sh("git checkout -- . && git clean -fdq -e target", cwd=WT)
    verdict = ok_clean and tests_ok and ok_changed
    print("clean tree demo passes: %s | 47 tests pass with change: %s | demo fails with change: %s" % (ok_clean, tests_ok, ok_changed))
    if not verdict:
        print(json.dumps(log, indent=1)[:3000])
        return 1
    dst = os.path.join(HERE, "seeded", sid)
    os.makedirs(dst, exist_ok=True)
    shutil.copy(os.path.join(src, "patch.diff"), dst)
    for d in demos:
        shutil.copy(os.path.join(src, d), dst)
    if os.path.exists(scaffold):
        shutil.copy(scaffold, dst)
    if os.path.exists(os.path.join(src, "notes.md")):
        shutil.copy(os.path.join(src, "notes.md"), dst)
    notes = open(os.path.join(src, "notes.md")).read() if os.path.exists(os.path.join(src, "notes.md")) else ""
    meta = {
        "property": prop, "expect": [prop], "id": sid, "base_commit": head, "source": "sub-agent given only the property text and a scratch worktree",
        "needs_to_manifest": "see notes.md",
        "confirmed": {
            "demo_on_clean_tree": {k: v["rc"] for k, v in clean.items()},
            "tests_with_change": "47 passed",
            "demo_with_change": {k: v["rc"] for k, v in changed.items()},
            "demo_kind": kind, "demo_profile": "release" if "--release" in sys.argv else "dev",
            "commands": ["cd %s && cargo run --offline --example <demo>   (clean tree: exit 0; for demo_kind=test: copy to tests/ and cargo test --test <demo>)" % crate,
                         "git apply patch.diff && cargo nextest run --workspace --no-fail-fast --offline   (47 passed)",
                         "cd %s && cargo run --offline --example <demo>   (changed tree: non-zero exit)" % crate],
            "demo_output_with_change": {k: v["tail"][-300:] for k, v in changed.items()},
        },
    }
    json.dump(meta, open(os.path.join(dst, "meta.json"), "w"), indent=1)
    print("kept as", dst)
    return 0


if __name__ == "__main__":
    sys.exit(main())
