#!/usr/bin/env python3
"""campaign.py [-j N] [--ids a,b,..] [--kind mutant|neutral|seeded|all] : run the whole sensitivity campaign in parallel on scratch
copies (never touches /repo or /verif/evidence). Mutants / seeded changes are checked against their expected properties,
neutral edits against all 20. Writes mutants/campaign.json and prints one line per entry."""
import json
import os
import subprocess
import sys
import time
from concurrent.futures import ThreadPoolExecutor

HERE = os.path.dirname(os.path.dirname(os.path.abspath(__file__)))
sys.path.insert(0, os.path.join(HERE, "tools"))
import mutants as M  # noqa: E402


def one(m):
    props = M.ALL if m.get("kind") == "neutral" or not m.get("expect") else sorted(set(m["expect"]))
    t0 = time.time()
    r = subprocess.run([sys.executable, os.path.join(HERE, "tools", "lab.py"), m["id"]] + props, capture_output=True, text=True)
    out = r.stdout + r.stderr
    fired = sorted({l.split(":")[0] for l in out.splitlines() if ": " in l and " obligations, " in l and not l.rstrip().endswith(" 0 violated")})
    crashed = sorted({l.split(":")[0] for l in out.splitlines() if "CHECKER CRASH" in l or "BUILD ERROR" in l})
    skipped = "cannot apply" in out
    keys = [l.strip().split(" | ")[0] for l in out.splitlines() if l.startswith("   C")]
    return m, fired, crashed, skipped, keys, round(time.time() - t0, 1)


def main():
    a = sys.argv[1:]
    j = int(a[a.index("-j") + 1]) if "-j" in a else 6
    ids = set(a[a.index("--ids") + 1].split(",")) if "--ids" in a else None
    kind = a[a.index("--kind") + 1] if "--kind" in a else "all"
    cat = M.load()
    sel = []
    for m in cat:
        k = "seeded" if m["id"].startswith("seeded-") else m.get("kind", "mutant")
        if ids is not None and m["id"] not in ids:
            continue
        if kind != "all" and k != kind:
            continue
        sel.append(m)
    res = {}
    bad = 0
    with ThreadPoolExecutor(max_workers=j) as ex:
        for m, fired, crashed, skipped, keys, dt in ex.map(one, sel):
            exp = set(m.get("expect", []))
            if skipped:
                verdict = "SKIPPED"
            elif m.get("kind") == "neutral":
                verdict = "OK (silent)" if not fired and not crashed else "FALSE ALARM"
            else:
                verdict = "CAUGHT" if (exp & set(fired)) or (not exp and fired) else ("ERROR" if crashed else "MISSED")
            if verdict in ("FALSE ALARM", "MISSED", "ERROR", "SKIPPED"):
                bad += 1
            print("%-52s %-12s fired=%s crashed=%s %ss" % (m["id"], verdict, fired, crashed, dt), flush=True)
            res[m["id"]] = {"verdict": verdict, "fired": fired, "crashed": crashed, "keys": keys[:6], "expected": sorted(exp)}
    # entries that need attention are run once more, alone: the compile-fail witnesses share a cargo target directory with the
    # fact builds and can pick up another worker's artefacts when many builds overlap
    again = [m for m in sel if res[m["id"]]["verdict"] in ("FALSE ALARM", "MISSED", "ERROR")]
    for m in again:
        m, fired, crashed, skipped, keys, dt = one(m)
        exp = set(m.get("expect", []))
        if m.get("kind") == "neutral":
            verdict = "OK (silent)" if not fired and not crashed else "FALSE ALARM"
        else:
            verdict = "CAUGHT" if (exp & set(fired)) or (not exp and fired) else ("ERROR" if crashed else "MISSED")
        if verdict != res[m["id"]]["verdict"]:
            print("%-52s %-12s (alone) fired=%s" % (m["id"], verdict, fired), flush=True)
            bad -= verdict in ("OK (silent)", "CAUGHT")
        res[m["id"]] = {"verdict": verdict, "fired": fired, "crashed": crashed, "keys": keys[:6], "expected": sorted(exp)}
    path = os.path.join(HERE, "mutants", "campaign.json")
    allres = json.load(open(path)) if os.path.exists(path) else {}
    allres.update(res)
    live = {m["id"] for m in cat}
    allres = {k: v for k, v in allres.items() if k in live}
    json.dump(allres, open(path, "w"), indent=1, sort_keys=True)
    print("%d entries, %d need attention" % (len(res), bad))


if __name__ == "__main__":
    main()
