#!/usr/bin/env python3
"""labpp.py <patch-id> <cfg> <fn-path-regex>: pretty-print the (normalised) MIR view of functions on a scratch copy with the patch applied."""
import os, re, shutil, subprocess, sys
HERE = os.path.dirname(os.path.dirname(os.path.abspath(__file__)))
sys.path.insert(0, HERE); sys.path.insert(0, os.path.join(HERE, "tools")); os.chdir(HERE)
from rules import build, engine, pp
import mutants as M
pid, cfg, rx = sys.argv[1], sys.argv[2], re.compile(sys.argv[3])
cat = {m["id"]: m for m in M.load()}
scratch = "/tmp/labpp-%s" % pid
shutil.rmtree(scratch, ignore_errors=True); os.makedirs(scratch)
try:
    subprocess.run(["rsync", "-a", "--exclude", "target", "--exclude", ".git", build.REPO + "/", scratch + "/"], check=True)
    subprocess.run("git init -q && git add -A && git -c user.email=v@v -c user.name=v commit -qm base", shell=True, cwd=scratch, check=True)
    if pid != "clean":
        err = M.apply(cat[pid], scratch); assert not err, err
    ctx = engine.Ctx("C01", "quick", repo=scratch)
    f = ctx.facts(cfg)
    print("absorbed:", sorted(f.absorbed))
    for p, fn in f.fns.items():
        if rx.search(p):
            pp.show(fn.j)
finally:
    shutil.rmtree(scratch, ignore_errors=True)
