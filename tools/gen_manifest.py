#!/usr/bin/env python3
"""Regenerate MANIFEST.json from the property modules present in rules/props (docstring + explanation)."""
import importlib
import json
import os
import sys

HERE = os.path.dirname(os.path.dirname(os.path.abspath(__file__)))
sys.path.insert(0, HERE)

props = [json.loads(l) for l in open(os.path.join(HERE, "properties.jsonl"))]

TECH = {
    "default": "custom MIR dataflow/CFG rules (rustc_private driver + Python): dominators, guarded-by edge deletion, "
               "must-pass-through, value provenance, call-graph reachability",
}
EXTRA_TECH = {
    "C10": " + trait-solver answers (Send/Sync) and compile-fail witnesses",
    "C12": " + format descriptors from the expanded AST",
    "C15": " + #[trace] expansion corpus compared with unannotated twins",
    "C16": " + configuration D (feature `enable` off)",
}


class FakeCtx:
    def __init__(self):
        self.explanation = ""
        self.not_decided = ""

    def __getattr__(self, name):
        raise _Stop()


class _Stop(Exception):
    pass


def describe(pid):
    mod = importlib.import_module("rules.props.%s" % pid.lower())
    ctx = FakeCtx()
    try:
        mod.check(ctx)
    except _Stop:
        pass
    except Exception:
        pass
    return (mod.__doc__ or "").strip(), ctx.explanation, ctx.not_decided


checks = []
na = []
for p in props:
    pid = p["id"]
    if not os.path.exists(os.path.join(HERE, "rules", "props", pid.lower() + ".py")):
        na.append({"property_id": pid, "reason": "check not built yet (see DESIGN.md section 5 for the planned structural clauses)"})
        continue
    doc, expl, nd = describe(pid)
    checks.append({
        "property_id": pid,
        "quick_cmd": "./verif check %s --tier quick" % pid,
        "thorough_cmd": "./verif check %s --tier thorough" % pid,
        "evidence_file": "/verif/evidence/%s.json" % pid,
        "replay_cmd_template": "./verif show {path}",
        "engine": "mirfacts+rules",
        "level_claimed": {
            "category": "other",
            "text": ("Static rule checking of NECESSARY structural conditions of the property, decided for every execution "
                     "from the type-checked program (MIR after drop elaboration); not a proof of the behavioural statement. "
                     "DECIDED: " + expl + " NOT DECIDED: " + nd),
            "design_ref": "DESIGN.md section 5, %s" % pid,
        },
        "level_note": ("Trusted: rustc front end / MIR construction (nightly 1.97 driving the repo's own cargo 1.80 resolution), "
                       "the mirfacts printer, the transparent-callee and accepted-idiom tables of /verif/rules, documented "
                       "behaviour of std/rtrb/parking_lot/codec crates. Configurations analysed are listed in the evidence "
                       "file; wasm-only code is not compiled."),
        "technique": TECH["default"] + EXTRA_TECH.get(pid, ""),
    })

m = {
    "version": 1,
    "setup_cmd": "./verif setup",
    "hooks": {
        "guard": "fastrace_verif",
        "enable": "none needed: the checks read /repo's source as it is through a rustc driver; no hook code is compiled into fastrace",
        "baseline_off_cmd": "cd /repo && (cargo nextest run --workspace --no-fail-fast --offline || cargo test --workspace --no-fail-fast --offline)",
        "source_commits": [],
        "add_only": True,
    },
    "engines": [
        {"name": "mirfacts", "path": "/verif/driver", "serves_properties": [c["property_id"] for c in checks],
         "kind_free_text": "rustc_private driver (RUSTC_WORKSPACE_WRAPPER) printing MIR bodies, ADTs, impls, statics and AST format descriptors as JSON facts"},
        {"name": "rules", "path": "/verif/rules", "serves_properties": [c["property_id"] for c in checks],
         "kind_free_text": "Python rule library over the facts: CFG, drop-flag-sensitive reachability, dominators, guarded/must-pass, provenance, call graph"},
    ],
    "checks": checks,
    "not_applicable": na,
    "notes": "All checks are static (family: static analysis). Genuine defects found and repaired are listed in known_findings.json; see DESIGN.md section 6.",
}
json.dump(m, open(os.path.join(HERE, "MANIFEST.json"), "w"), indent=1)
print("checks:", [c["property_id"] for c in checks], "n/a:", len(na))
