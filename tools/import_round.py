#!/usr/bin/env python3
"""import_round.py <Cxx> [--root /tmp/seed5] [--tag r5]: confirm the changes a sub-agent left under <root>/<Cxx>/out/<n>/ (patch.diff, demo .rs,
notes.md) in that agent's own scratch worktree and keep the confirmed ones under /verif/seeded/<Cxx>-<tag>-<slug>/."""
import os, re, subprocess, sys
HERE = os.path.dirname(os.path.dirname(os.path.abspath(__file__)))
prop = sys.argv[1]
root = sys.argv[sys.argv.index("--root") + 1] if "--root" in sys.argv else "/tmp/seed5"
tag = sys.argv[sys.argv.index("--tag") + 1] if "--tag" in sys.argv else "r5"
base = os.path.join(root, prop)
for n in sorted(os.listdir(os.path.join(base, "out"))):
    d = os.path.join(base, "out", n)
    if not os.path.exists(os.path.join(d, "patch.diff")):
        continue
    notes = open(os.path.join(d, "notes.md")).read() if os.path.exists(os.path.join(d, "notes.md")) else ""
    title = notes.splitlines()[0] if notes else n
    title = re.sub(r"^#\s*%s\s*/\s*seeded change \d+\s*-+\s*" % prop, "", title)
    slug = re.sub(r"[^a-z0-9]+", "-", title.lower()).strip("-")[:48].strip("-")
    sid = "%s-%s-%s" % (prop, tag, slug)
    demos = [f for f in os.listdir(d) if f.endswith(".rs")]
    crate, feats, kind, rel = "fastrace", None, "example", False
    for line in notes.splitlines():
        if "cargo run" in line or "cargo test" in line:
            if demos and demos[0][:-3] not in line and "--example" in line:
                continue
            m = re.search(r"cd\s+(?:\S*/)?(fastrace[\w-]*|test-statically-disable)\b", line)
            if m:
                crate = m.group(1)
            m = re.search(r"--features[ =]([\w,/-]+)", line)
            if m:
                feats = m.group(1)
            if "--release" in line:
                rel = True
            if "cargo test" in line and "--test " in line:
                kind = "test"
            if m or "--example" in line:
                break
    if crate == "fastrace" and feats is None and kind == "example":
        feats = "enable"
    cmd = [sys.executable, os.path.join(HERE, "tools", "confirm_seeded.py"), d, sid, prop, "--crate", crate, "--kind", kind]
    if feats:
        cmd += ["--features", feats]
    if rel:
        cmd += ["--release"]
    print("==", sid, "crate=%s features=%s kind=%s" % (crate, feats, kind), flush=True)
    r = subprocess.run(cmd, env=dict(os.environ, CONFIRM_WT=os.path.join(base, "wt")), capture_output=True, text=True)
    print((r.stdout + r.stderr)[-1500:], flush=True)
