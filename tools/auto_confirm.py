#!/usr/bin/env python3
"""auto_confirm.py <worktree> <property> <round-tag>: confirm SEEDED/1 and SEEDED/2 of a sub-agent worktree, guessing the crate."""
import os
import re
import subprocess
import sys

HERE = os.path.dirname(os.path.abspath(__file__))
wt, prop, tag = sys.argv[1], sys.argv[2], sys.argv[3]
for i in sorted(os.listdir(os.path.join(wt, "SEEDED"))):
    d = os.path.join(wt, "SEEDED", i)
    if not os.path.isdir(d) or not os.path.exists(os.path.join(d, "patch.diff")):
        continue
    demo = "".join(open(os.path.join(d, f)).read() for f in os.listdir(d) if f.endswith(".rs"))
    notes = open(os.path.join(d, "notes.md")).read() if os.path.exists(os.path.join(d, "notes.md")) else ""
    crate, feat = "fastrace", None
    if "fastrace_jaeger" in demo:
        crate = "fastrace-jaeger"
    elif "fastrace_datadog" in demo:
        crate = "fastrace-datadog"
    elif "fastrace_opentelemetry" in demo:
        crate = "fastrace-opentelemetry"
    elif "fastrace_futures" in demo:
        crate, feat = "fastrace-futures", "fastrace/enable"
    elif "test-statically-disable" in notes and "examples" in notes and re.search(r"test-statically-disable/examples", notes):
        crate = "test-statically-disable"
    if crate in ("fastrace-jaeger", "fastrace-datadog", "fastrace-opentelemetry") and "--features fastrace/enable" in notes:
        feat = "fastrace/enable"
    # a short slug from the first heading / line of notes
    m = re.search(r"^#+\s*(.+)$", notes, re.M)
    slug = re.sub(r"[^a-z0-9]+", "-", (m.group(1) if m else "change").lower()).strip("-")[:40]
    sid = "%s-%s%s-%s" % (prop, tag, i, slug)
    cmd = [sys.executable, os.path.join(HERE, "confirm_seeded.py"), d, sid, prop, "--crate", crate]
    if feat:
        cmd += ["--features", feat]
    r = subprocess.run(cmd, capture_output=True, text=True)
    print(sid, "|", (r.stdout + r.stderr).strip().splitlines()[-2:] if r.stdout or r.stderr else "?")
