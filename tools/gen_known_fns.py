#!/usr/bin/env python3
"""Writes rules/known_fns.json: the function items of the analysed crates on the tree the rules were confirmed on.
A crate-local, non-public function that is NOT in this table is a helper the rules have never seen: the fact loader
inlines it into its callers (rules/core.py, Facts.normalise) so that extracting a helper is a neutral edit for every rule.
Regenerate after a `fix:` commit that adds functions:  python3 tools/gen_known_fns.py"""
import json
import os
import re
import sys

HERE = os.path.dirname(os.path.dirname(os.path.abspath(__file__)))
sys.path.insert(0, HERE)
os.environ["VERIF_NO_NORMALISE"] = "1"
from rules import build  # noqa: E402
from rules.core import Facts  # noqa: E402

out = {}
for cfg in ("E", "D"):
    d, info = build.build(cfg)
    f = Facts(d, info)
    for p, fn in f.fns.items():
        if fn.kind == "Closure":
            continue
        sig = "(%s) -> %s" % (", ".join(fn.j.get("inputs", [])), fn.j.get("output", ""))
        out.setdefault(fn.crate, {})[re.sub(r"#\d+$", "", p)] = sig
adts = {}
enums = {}
for cfg in ("E", "D"):
    d, info = build.build(cfg)
    f = Facts(d, info)
    for crate, cd in f.crates.items():
        for a in cd["adts"]:
            if a["kind"] == "struct" or len(a["variants"]) == 1:
                adts.setdefault(crate, {})[a["path"]] = [[x["name"], x["ty"]] for x in a["variants"][0]["fields"]]
            elif len(a["variants"]) > 1:
                enums.setdefault(crate, {})[a["path"]] = [[v["name"], [x["ty"] for x in v["fields"]]] for v in a["variants"]]
res = {k: dict(sorted(v.items())) for k, v in sorted(out.items())}
res["__adts__"] = adts
res["__enums__"] = enums
statics = {}
for cfg in ("E", "D"):
    d, info = build.build(cfg)
    f = Facts(d, info)
    for crate, cd in f.crates.items():
        for st in cd["statics"]:
            statics.setdefault(crate, {})[st["path"]] = st["ty"]
res["__statics__"] = statics
# callee fingerprints: what each function (with its closures) calls -- used to tell apart functions of equal signature when a
# refactoring merges them behind a flag parameter and the loader splits them again
callees = {}
for cfg in ("E", "D"):
    d, info = build.build(cfg)
    f = Facts(d, info)
    for p, fn in f.fns.items():
        root = re.sub(r"(::\{closure#[^}]*\})+$", "", re.sub(r"#\d+$", "", p))
        cs = callees.setdefault(fn.crate, {}).setdefault(root, set())
        for blk in fn.blocks:
            t = blk["term"]
            if t["k"] == "call" and not blk["cleanup"]:
                cs.add(t.get("decl") or t["callee"])
tls = {}
for cfg in ("E", "D"):
    d, info = build.build(cfg)
    f = Facts(d, info)
    for k, c in f.consts.items():
        m = re.match(r"std::thread::local::LocalKey<(.*)>$", c.get("ty", ""))
        if m:
            tls.setdefault(k.split("::", 1)[0], {})[k] = m.group(1)
res["__tls__"] = tls
res["__callees__"] = {c: {k: sorted(v) for k, v in sorted(m.items())} for c, m in sorted(callees.items())}
json.dump(res, open(os.path.join(HERE, "rules", "known_fns.json"), "w"), indent=0)
print({k: len(v) for k, v in out.items()})
