"""labctx.facts_for(pid, cfg='E', prop='C01') -> (ctx, facts): facts of a scratch copy of /repo with one catalogue / seeded /
neutral patch applied ('clean' for none). The scratch copy is removed before returning (facts are cached per tree hash)."""
import os, shutil, subprocess, sys
HERE = os.path.dirname(os.path.dirname(os.path.abspath(__file__)))
sys.path.insert(0, HERE); sys.path.insert(0, os.path.join(HERE, "tools"))
from rules import build, engine  # noqa
import mutants as M  # noqa


def facts_for(pid, cfg="E", prop="C01"):
    cat = {m["id"]: m for m in M.load()}
    scratch = "/tmp/labctx-%s-%d" % (pid, os.getpid())
    shutil.rmtree(scratch, ignore_errors=True); os.makedirs(scratch)
    try:
        subprocess.run(["rsync", "-a", "--exclude", "target", "--exclude", ".git", build.REPO + "/", scratch + "/"], check=True)
        subprocess.run("git init -q && git add -A && git -c user.email=v@v -c user.name=v commit -qm base", shell=True, cwd=scratch, check=True)
        if pid != "clean":
            err = M.apply(cat[pid], scratch); assert not err, err
        ctx = engine.Ctx(prop, "quick", repo=scratch)
        return ctx, ctx.facts(cfg)
    finally:
        shutil.rmtree(scratch, ignore_errors=True)
