//@ error: any
//@ mention: can not be used with `properties`
use fastrace::trace;
#[trace(enter_on_poll = true, properties = { "a": "{a}" })] //~ FAIL
//~ PASS #[trace(properties = { "a": "{a}" })]
async fn f(a: u32) {
    let _ = a;
}
fn main() {
    drop(f(1));
}
