//@ error: E0277
//@ mention: Rc
// Reporters run on the collector thread: the trait requires Send + 'static.
use fastrace::collector::{Reporter, SpanRecord};
struct R(std::rc::Rc<()>);
struct Q(std::sync::Arc<()>);
impl Reporter for R { fn report(&mut self, _: Vec<SpanRecord>) {} } //~ FAIL
//~ PASS impl Reporter for Q { fn report(&mut self, _: Vec<SpanRecord>) {} }
fn main() { let _ = (R(Default::default()).0.clone(), Q(Default::default()).0.clone()); }
