//@ error: E0277
//@ mention: SpanSet
// A queued span set cannot be duplicated.
fn need_clone<T: Clone>() {}
fn main() {
    need_clone::<fastrace::collector::SpanSet>(); //~ FAIL
    //~ PASS need_clone::<fastrace::collector::SpanRecord>();
}
