//@ error: E0277
//@ mention: LocalSpan
fn need_send<T: Send>(_: T) {}
fn main() {
    let root = fastrace::Span::noop();
    let s = fastrace::local::LocalSpan::enter_with_local_parent("x");
    need_send(s); //~ FAIL
    //~ PASS need_send(root); drop(s);
}
