//@ error: E0277
//@ mention: LocalCollector
fn need_send<T: Send>(_: T) {}
fn main() {
    let c = fastrace::local::LocalCollector::start();
    let spans = fastrace::local::LocalCollector::start().collect();
    need_send(c); //~ FAIL
    //~ PASS need_send(spans); drop(c);
}
