//@ error: any
//@ mention: can not be used with `properties`
// `properties` and `enter_on_poll` together are rejected whatever their order in the attribute (accepted, the properties would be
// dropped silently: enter_on_poll has no span to attach them to).
use fastrace::trace;
#[trace(properties = { "a": "{a}" }, enter_on_poll = true)] //~ FAIL
//~ PASS #[trace(enter_on_poll = true)]
async fn f(a: u32) {
    let _ = a;
}
fn main() {
    drop(f(1));
}
