//@ error: E0277
//@ mention: Span
// A span handle cannot be duplicated (it is finished exactly once, when dropped).
fn need_clone<T: Clone>() {}
fn main() {
    need_clone::<fastrace::Span>(); //~ FAIL
    //~ PASS need_clone::<fastrace::local::LocalSpans>();
}
