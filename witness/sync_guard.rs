//@ error: E0277
//@ mention: LocalParentGuard
fn need_sync<T: Sync>(_: &T) {}
fn main() {
    let root = fastrace::Span::noop();
    let g = root.set_local_parent();
    need_sync(&g); //~ FAIL
    //~ PASS need_sync(&fastrace::collector::SpanId(1)); drop(g);
}
