//@ error: E0277
//@ mention: LocalParentGuard
// A local-parent guard must not cross threads.
fn need_send<T: Send>(_: T) {}
fn main() {
    let root = fastrace::Span::noop();
    let g = root.set_local_parent();
    need_send(g); //~ FAIL
    //~ PASS need_send(root); drop(g);
}
