//! Positive examples for the expected-zero rules: every forbidden shape below MUST be reported by the detector that
//! guards the corresponding rule on fastrace, on every run. A detector that stops matching its fixture fails the check.
#![allow(dead_code)]
use std::cell::RefCell;
use std::collections::VecDeque;

thread_local! {
    static STATE: RefCell<Vec<u32>> = RefCell::new(Vec::new());
}

/// C07-R3: the panicking LocalKey::with family.
pub fn tls_with() -> usize {
    STATE.with(|s| s.borrow().len())
}

/// C07-R2: caller-supplied closure evaluated while a RefCell is mutably borrowed.
pub fn closure_under_borrow<F: FnOnce() -> u32>(cell: &RefCell<Vec<u32>>, f: F) {
    let mut v = cell.borrow_mut();
    v.push(f());
}

/// C07-R2 through a helper that invokes its parameter.
pub fn closure_under_borrow_indirect<F: FnOnce() -> u32>(cell: &RefCell<Vec<u32>>, f: F) {
    let mut v = cell.borrow_mut();
    helper(&mut v, f);
}

fn helper<F: FnOnce() -> u32>(v: &mut Vec<u32>, f: F) {
    v.push(f());
}

/// C07-R1: unguarded index / unwrap.
pub fn unguarded_index(v: &Vec<u32>) -> u32 {
    v[0]
}

pub fn guarded_index(v: &Vec<u32>) -> u32 {
    if v.len() == 1 { v[0] } else { 0 }
}

pub fn unguarded_unwrap(o: Option<u32>) -> u32 {
    o.unwrap()
}

pub fn guarded_unwrap(o: Option<u32>) -> u32 {
    if o.is_none() {
        return 0;
    }
    o.unwrap()
}

/// C07-R5: blocking.
pub fn sleepy() {
    std::thread::sleep(std::time::Duration::from_millis(1));
}

/// C16-R3: closure evaluated without a recording check.
pub struct Holder {
    pub inner: Option<Vec<u32>>,
}

impl Holder {
    pub fn eager<F: FnOnce() -> u32>(&mut self, f: F) {
        let x = f();
        if let Some(v) = self.inner.as_mut() {
            v.push(x);
        }
    }
    pub fn lazy<F: FnOnce() -> u32>(&mut self, f: F) {
        if let Some(v) = self.inner.as_mut() {
            v.push(f());
        }
    }
}

/// C04-R2: a LIFO overflow list.
pub struct Lifo {
    pub pending: Vec<u32>,
    pub fifo: VecDeque<u32>,
}

impl Lifo {
    pub fn replay(&mut self) -> Option<u32> {
        self.pending.pop()
    }
    pub fn park(&mut self, v: u32) {
        self.pending.push(v);
    }
}

/// drop-flag sensitivity: the guard is released on one path only.
pub fn conditional_release(flag: bool, cell: &RefCell<Vec<u32>>) -> usize {
    let g = cell.borrow_mut();
    if flag {
        drop(g);
        return 0;
    }
    g.len()
}
