// Stress demo for D1 (thread exit loses last commands) and D2 (in_span finishes root before its scope).
use std::collections::HashMap;
use std::sync::{Arc, Mutex};
use std::time::Duration;

use fastrace::collector::{Config, Reporter, SpanRecord};
use fastrace::prelude::*;

#[derive(Clone, Default)]
struct Cap(Arc<Mutex<Vec<SpanRecord>>>);
impl Reporter for Cap {
    fn report(&mut self, spans: Vec<SpanRecord>) {
        self.0.lock().unwrap().extend(spans);
    }
}

fn main() {
    let which = std::env::args().nth(1).unwrap_or_default();
    let n: usize = std::env::args().nth(2).and_then(|s| s.parse().ok()).unwrap_or(20000);
    let cap = Cap::default();
    let cancelable = which == "d2";
    fastrace::set_reporter(
        cap.clone(),
        Config::default().report_interval(Duration::ZERO).cancelable(cancelable),
    );
    if which == "d1" {
        // every trace is created and finished on its own short-lived thread
        for i in 0..n {
            std::thread::spawn(move || {
                let root = Span::root("root", SpanContext::new(TraceId(i as u128 + 1), SpanId(0)));
                drop(root);
            })
            .join()
            .unwrap();
        }
        fastrace::flush();
        std::thread::sleep(Duration::from_millis(50));
        fastrace::flush();
        let got = cap.0.lock().unwrap().len();
        println!("D1: traces finished on exiting threads: {} delivered: {} lost: {}", n, got, n - got);
    } else {
        for i in 0..n {
            let root = Span::root("root", SpanContext::new(TraceId(i as u128 + 1), SpanId(0)));
            let fut = async {
                let _s = LocalSpan::enter_with_local_parent("last-poll-local-span");
            }
            .in_span(root);
            pollster::block_on(fut);
            let t = std::time::Instant::now();
            while t.elapsed() < Duration::from_micros(30) { std::hint::spin_loop(); }
        }
        fastrace::flush();
        std::thread::sleep(Duration::from_millis(50));
        fastrace::flush();
        let recs = cap.0.lock().unwrap();
        let mut per: HashMap<u128, usize> = HashMap::new();
        for r in recs.iter() {
            *per.entry(r.trace_id.0).or_default() += 1;
        }
        let incomplete = per.values().filter(|c| **c != 2).count();
        println!("D2: traces: {} delivered traces: {} traces missing the last poll's local span: {}", n, per.len(), incomplete);
    }
}
