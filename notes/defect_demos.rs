use std::sync::atomic::{AtomicBool, Ordering};
use std::sync::{Arc, Mutex};
use fastrace::collector::{Config, Reporter, SpanRecord};
use fastrace::prelude::*;

#[derive(Clone, Default)]
struct Rep(Arc<Mutex<Vec<SpanRecord>>>);
impl Reporter for Rep { fn report(&mut self, s: Vec<SpanRecord>) { self.0.lock().unwrap().extend(s); } }

fn catch<F: FnOnce() + std::panic::UnwindSafe>(name: &str, f: F) {
    let r = std::panic::catch_unwind(f);
    println!("{name}: {}", if r.is_ok() { "returned" } else { "PANICKED" });
}

fn main() {
    std::panic::set_hook(Box::new(|_| {}));
    // D3 at the Sender level
    {
        let (mut tx, mut rx) = fastrace::util::spsc::bounded::<u32>(1);
        tx.force_send(0); tx.force_send(1); tx.force_send(2);
        let mut got = vec![rx.try_recv().unwrap().unwrap()];
        tx.force_send(3);
        got.push(rx.try_recv().unwrap().unwrap());
        tx.force_send(4);
        got.push(rx.try_recv().unwrap().unwrap());
        tx.force_send(5);
        got.push(rx.try_recv().unwrap().unwrap());
        println!("D3 order received: {:?} (sent 0,1,2,3,4,5)", got);
    }
    let rep = Rep::default();
    fastrace::set_reporter(rep.clone(), Config::default().report_interval(std::time::Duration::from_secs(3600)));
    std::thread::sleep(std::time::Duration::from_millis(50));
    // D4
    {
        let root = Span::root("d4root", SpanContext::random());
        root.add_property(|| ("k", "v"));
        fastrace::flush();
        root.cancel();
        drop(root);
        fastrace::flush();
        let recs = rep.0.lock().unwrap();
        let r = recs.iter().find(|r| r.name == "d4root").unwrap();
        println!("D4 root properties after no-op cancel: {:?}", r.properties);
    }
    // D8
    {
        static CALLED: AtomicBool = AtomicBool::new(false);
        let s = Span::enter_with_parents("s", [&Span::noop()]).with_property(|| { CALLED.store(true, Ordering::SeqCst); ("k", "v") });
        println!("D8 closure called on span with only no-op parents: {} elapsed.is_some={}", CALLED.load(Ordering::SeqCst), s.elapsed().is_some());
    }
    // D5
    catch("D5 current_local_parent under all-noop parent set", || {
        let s = Span::enter_with_parents("s", [&Span::noop()]);
        let _g = s.set_local_parent();
        let _ = SpanContext::current_local_parent();
    });
    // D6
    catch("D6 tracing call inside LocalSpan::with_property closure", || {
        let root = Span::root("d6", SpanContext::random());
        let _g = root.set_local_parent();
        let _a = LocalSpan::enter_with_local_parent("a").with_property(|| { let _b = LocalSpan::enter_with_local_parent("b"); ("k", "v") });
    });
    catch("D6 tracing call inside LocalSpan::add_property closure", || {
        let root = Span::root("d6b", SpanContext::random());
        let _g = root.set_local_parent();
        LocalSpan::add_property(|| { LocalSpan::add_event(Event::new("e")); ("k", "v") });
    });
    // D10
    catch("D10 LocalSpan::with_property while a later local-parent scope is open (debug build)", || {
        let root = Span::root("d10", SpanContext::random());
        let other = Span::root("d10-other", SpanContext::random());
        let _g = root.set_local_parent();
        let a = LocalSpan::enter_with_local_parent("a");
        let g2 = other.set_local_parent();
        let a = a.with_property(|| ("k", "v"));
        drop(g2);
        drop(a);
    });
    // D9
    catch("D9 4097 nested local parents (debug build)", || {
        let root = Span::root("d9", SpanContext::random());
        let mut guards = Vec::new();
        for _ in 0..4097 { guards.push(root.set_local_parent()); }
        while let Some(g) = guards.pop() { drop(g); }
    });
}
