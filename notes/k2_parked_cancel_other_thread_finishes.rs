// NOT a seeded-defect demonstration: this variant FAILS ON THE UNMODIFIED TREE (2816b42).
// Same as SEEDED/2's demonstration, except that the worker stays alive and idle (it does not send
// any further command) until after the main thread has finished the root and flushed. The parked
// DropCollect stays in the worker's thread-local overflow list, the collector reads the
// CommitCollect from the main thread's queue, and the cancelled trace is delivered.
//
// Demonstration for property C04 (cancel() suppresses the whole trace, also when the calling
// thread's command queue is full).
//
// A worker thread's command queue is full when it calls cancel() on a root it shares with the
// main thread. The cancel command has to wait on the worker's side. The collector then drains the
// queues, the worker ends without recording anything else, and the main thread finishes the
// root. No record of the cancelled trace may be delivered.
//
// Deterministic: the collector only runs when flush() is called (report interval one hour).
//
// Exit code 0: nothing of the cancelled trace was delivered. Exit code 1 otherwise.

use std::sync::Arc;
use std::sync::Mutex;
use std::sync::mpsc;
use std::time::Duration;

use fastrace::collector::Config;
use fastrace::collector::Reporter;
use fastrace::collector::SpanRecord;
use fastrace::prelude::*;

const VICTIM: TraceId = TraceId(4242);
// The per-thread command queue holds 10240 commands.
const MORE_THAN_A_QUEUE: usize = 12_000;

struct CollectingReporter {
    delivered: Arc<Mutex<Vec<SpanRecord>>>,
}

impl Reporter for CollectingReporter {
    fn report(&mut self, spans: Vec<SpanRecord>) {
        self.delivered.lock().unwrap().extend(spans);
    }
}

fn main() {
    let delivered = Arc::new(Mutex::new(Vec::new()));
    fastrace::set_reporter(
        CollectingReporter {
            delivered: delivered.clone(),
        },
        Config::default()
            .cancelable(true)
            .report_interval(Duration::from_secs(3600)),
    );
    // Let the collector thread run its first cycle; from now on only flush() runs the collector.
    std::thread::sleep(Duration::from_millis(300));
    fastrace::flush();

    let root = Arc::new(Span::root(
        "victim",
        SpanContext::new(VICTIM, SpanId::default()),
    ));

    let (worker_cancelled_tx, worker_cancelled_rx) = mpsc::channel::<()>();
    let (queues_drained_tx, queues_drained_rx) = mpsc::channel::<()>();

    let worker = {
        let root = root.clone();
        std::thread::spawn(move || {
            // Fill this thread's command queue: events are droppable, the surplus is discarded.
            for _ in 0..MORE_THAN_A_QUEUE {
                root.add_event(Event::new("progress"));
            }
            // The queue is full: the cancel command is kept on this thread until there is room.
            root.cancel();
            drop(root);
            worker_cancelled_tx.send(()).unwrap();
            // Wait until the collector has drained the queues, then end without recording
            // anything else.
            queues_drained_rx.recv().unwrap();
        })
    };

    worker_cancelled_rx.recv().unwrap();
    fastrace::flush();

    // cancel() returned long ago; now the root finishes on the main thread.
    drop(root);

    fastrace::flush();
    fastrace::flush();
    // Only now is the worker allowed to end.
    queues_drained_tx.send(()).unwrap();
    worker.join().unwrap();
    fastrace::flush();

    let delivered = delivered.lock().unwrap();
    let of_victim: Vec<_> = delivered.iter().filter(|s| s.trace_id == VICTIM).collect();
    println!(
        "records delivered for the cancelled trace: {}",
        of_victim.len()
    );
    if let Some(first) = of_victim.first() {
        println!(
            "first: name={:?} span_id={:?} events={}",
            first.name,
            first.span_id,
            first.events.len()
        );
        println!("FAIL: a cancelled trace was delivered");
        std::process::exit(1);
    }
    println!("PASS");
}
