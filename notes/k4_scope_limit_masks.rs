// 4096 nested local-parent scopes are open on this thread (the per-thread scope limit). A further span is set as local
// parent and a local span is entered "under it". The property (C10 / C09) says local operations act on the innermost
// local parent, and that beyond a limit things are skipped, never mis-parented.
use std::sync::Arc;
use std::sync::Mutex;

use fastrace::collector::Config;
use fastrace::collector::Reporter;
use fastrace::prelude::*;

struct Rep(Arc<Mutex<Vec<SpanRecord>>>);
impl Reporter for Rep {
    fn report(&mut self, spans: Vec<SpanRecord>) {
        self.0.lock().unwrap().extend(spans);
    }
}

fn main() {
    let out = Arc::new(Mutex::new(Vec::new()));
    fastrace::set_reporter(Rep(out.clone()), Config::default());
    let outer = Span::root("outer", SpanContext::new(TraceId(1), SpanId(0)));
    let other = Span::root("other", SpanContext::new(TraceId(2), SpanId(0)));
    let mut guards = Vec::new();
    for _ in 0..4096 {
        guards.push(outer.set_local_parent());
    }
    let ctx_before = SpanContext::current_local_parent().map(|c| c.trace_id);
    {
        let _g = other.set_local_parent(); // scope 4097: refused
        let ctx_inside = SpanContext::current_local_parent().map(|c| c.trace_id);
        let _s = LocalSpan::enter_with_local_parent("under-other");
        println!("before: {ctx_before:?} inside: {ctx_inside:?}");
    }
    while let Some(g) = guards.pop() {
        drop(g);
    }
    drop(outer);
    drop(other);
    fastrace::flush();
    let recs = out.lock().unwrap();
    let mut bad = 0;
    for r in recs.iter().filter(|r| r.name == "under-other") {
        println!("under-other delivered in trace {:?}", r.trace_id);
        if r.trace_id != TraceId(2) {
            bad += 1;
        }
    }
    if bad > 0 {
        println!("FAIL: a local span entered under `other` was delivered in another trace");
        std::process::exit(1);
    }
    println!("PASS (skipped or delivered under `other`)");
}
