// K1: a root created on thread A and finished on thread B. If the collector has already passed A's queue in a cycle
// when A pushes StartCollect, and reads B's CommitCollect later in the same cycle, the start is read one cycle after
// the commit and the inserted ActiveCollector is never removed.
use std::time::Duration;
use fastrace::collector::{Config, Reporter, SpanRecord};
use fastrace::prelude::*;

struct Nop;
impl Reporter for Nop { fn report(&mut self, _: Vec<SpanRecord>) {} }

fn main() {
    let n: usize = std::env::args().nth(1).and_then(|s| s.parse().ok()).unwrap_or(300_000);
    fastrace::set_reporter(Nop, Config::default().report_interval(Duration::ZERO));
    // some extra registered threads so that a cycle has several queues to walk through
    let (tx, rx) = std::sync::mpsc::sync_channel::<Span>(0);
    let b = std::thread::spawn(move || { for s in rx { drop(s); } });
    for i in 0..n {
        let root = Span::root("r", SpanContext::new(TraceId(i as u128 + 1), SpanId(0)));
        tx.send(root).unwrap();
    }
    drop(tx);
    b.join().unwrap();
    for _ in 0..3 { fastrace::flush(); std::thread::sleep(Duration::from_millis(20)); }
    let (active, held, dang, rxs) = fastrace::collector::__retained_state();
    println!("K1: {} traces started on A and finished on B; after quiescence: active collectors retained = {}, held sets = {}, danglings = {}, receivers = {}", n, active, held, dang, rxs);
    if active != 0 { std::process::exit(1); }
}
