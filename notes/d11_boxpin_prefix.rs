// D11: #[trace] on a hand-written fn of the shape async-trait generates drops the statements before Box::pin(..).
use std::future::Future;
use std::pin::Pin;
use std::sync::atomic::{AtomicUsize, Ordering};
use fastrace::prelude::*;

static SIDE: AtomicUsize = AtomicUsize::new(0);

#[trace]
fn traced(x: u32) -> Pin<Box<dyn Future<Output = u32> + Send>> {
    SIDE.fetch_add(1, Ordering::SeqCst);
    Box::pin(async move { x + 1 })
}

fn plain(x: u32) -> Pin<Box<dyn Future<Output = u32> + Send>> {
    SIDE.fetch_add(1, Ordering::SeqCst);
    Box::pin(async move { x + 1 })
}

fn main() {
    let a = pollster::block_on(plain(1));
    let after_plain = SIDE.load(Ordering::SeqCst);
    let b = pollster::block_on(traced(1));
    let after_traced = SIDE.load(Ordering::SeqCst);
    println!("plain -> {a}, side effects so far {after_plain}; traced -> {b}, side effects so far {after_traced}");
    assert_eq!(after_traced, 2, "the statement before Box::pin(..) was not executed by the #[trace] version");
}
