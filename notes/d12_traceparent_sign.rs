use fastrace::prelude::*;

fn main() {
    let cases = [
        "00-+af7651916cd43dd8448eb211c80319c-b7ad6b7169203331-01",
        "00-0af7651916cd43dd8448eb211c80319c-+7ad6b7169203331-01",
        "00-0af7651916cd43dd8448eb211c80319c-b7ad6b7169203331-+1",
    ];
    let mut bad = 0;
    for c in cases {
        let r = SpanContext::decode_w3c_traceparent(c);
        println!("{c} -> {:?}", r.map(|c| (c.trace_id, c.span_id, c.sampled)));
        if r.is_some() {
            bad += 1;
        }
    }
    if bad > 0 {
        println!("FAIL: {bad} fields that are not hexadecimal numbers were accepted");
        std::process::exit(1);
    }
    println!("PASS");
}
