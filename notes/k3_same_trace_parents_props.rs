use std::sync::{Arc, Mutex};
use std::time::Duration;
use fastrace::collector::{Config, Reporter, SpanRecord};
use fastrace::prelude::*;
#[derive(Clone, Default)]
struct Cap(Arc<Mutex<Vec<SpanRecord>>>);
impl Reporter for Cap { fn report(&mut self, s: Vec<SpanRecord>) { self.0.lock().unwrap().extend(s); } }
fn main() {
    let cap = Cap::default();
    fastrace::set_reporter(cap.clone(), Config::default().report_interval(Duration::from_secs(3600)));
    let root = Span::root("root", SpanContext::random());
    let child = Span::enter_with_parent("child", &root);
    let merged = Span::enter_with_parents("merged", [&root, &child]);
    merged.add_property(|| ("k", "v"));
    merged.add_event(Event::new("ev"));
    drop(merged); drop(child); drop(root);
    fastrace::flush();
    let recs = cap.0.lock().unwrap();
    let mut bad = false;
    for r in recs.iter().filter(|r| r.name == "merged") {
        println!("merged copy under parent {:?}: properties={:?} events={}", r.parent_id, r.properties, r.events.len());
        if r.properties.len() != 1 || r.events.len() != 1 { bad = true; }
    }
    if bad { println!("FAIL: attachments are not exactly once on each copy"); std::process::exit(1); }
    println!("OK");
}
