//! MIR / ADT / impl facts. Faithful printer; no decisions.

use std::collections::BTreeSet;

use rustc_hir::def::DefKind;
use rustc_hir::def_id::{DefId, LocalDefId, LOCAL_CRATE};
use rustc_infer::infer::TyCtxtInferExt;
use rustc_middle::mir::{
    self, AggregateKind, BasicBlock, Body, Operand, Place, PlaceElem, Rvalue, StatementKind,
    TerminatorKind, UnwindAction,
};
use rustc_middle::ty::print::{with_no_trimmed_paths, with_no_visible_paths, with_resolve_crate_name};
use rustc_middle::ty::{self, GenericArgsRef, Instance, Ty, TyCtxt, TypingEnv};
use rustc_span::{sym, Span};
use rustc_trait_selection::infer::InferCtxtExt;

use crate::json::J;

fn path<'tcx>(tcx: TyCtxt<'tcx>, did: DefId) -> String {
    with_no_visible_paths!(with_no_trimmed_paths!(with_resolve_crate_name!(tcx.def_path_str(did))))
}

fn path_args<'tcx>(tcx: TyCtxt<'tcx>, did: DefId, args: GenericArgsRef<'tcx>) -> String {
    with_no_visible_paths!(with_no_trimmed_paths!(with_resolve_crate_name!(tcx.def_path_str_with_args(did, args))))
}

fn tystr<'tcx>(ty: Ty<'tcx>) -> String {
    with_no_visible_paths!(with_no_trimmed_paths!(with_resolve_crate_name!(ty.to_string())))
}

fn loc<'tcx>(tcx: TyCtxt<'tcx>, span: Span) -> String {
    let sm = tcx.sess.source_map();
    let sp = span.source_callsite();
    let lo = sm.lookup_char_pos(sp.lo());
    format!("{}:{}", lo.file.name.prefer_local_unconditionally(), lo.line)
}

fn bbj(b: BasicBlock) -> J {
    J::Int(b.index() as i128)
}

struct Cx<'a, 'tcx> {
    tcx: TyCtxt<'tcx>,
    body: &'a Body<'tcx>,
    def: LocalDefId,
    env: TypingEnv<'tcx>,
    n_calls: usize,
}

impl<'a, 'tcx> Cx<'a, 'tcx> {
    fn field_name(&self, base_ty: Ty<'tcx>, variant: Option<rustc_abi::VariantIdx>, idx: usize) -> String {
        match base_ty.kind() {
            ty::Adt(adt, _) => {
                let v = match variant {
                    Some(v) => adt.variant(v),
                    None => {
                        if adt.is_enum() {
                            return format!("{}", idx);
                        }
                        adt.non_enum_variant()
                    }
                };
                v.fields.iter().nth(idx).map(|f| f.name.to_string()).unwrap_or_else(|| idx.to_string())
            }
            ty::Closure(def, _) | ty::Coroutine(def, _) | ty::CoroutineClosure(def, _) => {
                if let Some(ld) = def.as_local() {
                    let caps = self.tcx.closure_captures(ld);
                    if let Some(c) = caps.get(idx) {
                        return c.to_symbol().to_string();
                    }
                }
                idx.to_string()
            }
            _ => idx.to_string(),
        }
    }

    fn place(&self, p: &Place<'tcx>) -> J {
        let mut proj = Vec::new();
        let mut pty = mir::PlaceTy::from_ty(self.body.local_decls[p.local].ty);
        for elem in p.projection.iter() {
            match elem {
                PlaceElem::Deref => proj.push(J::s("*")),
                PlaceElem::Field(f, _) => {
                    let name = self.field_name(pty.ty, pty.variant_index, f.index());
                    proj.push(J::s(format!(".{}", name)));
                }
                PlaceElem::Downcast(name, vidx) => {
                    let n = match name {
                        Some(s) => s.to_string(),
                        None => format!("{}", vidx.index()),
                    };
                    proj.push(J::s(format!("@{}", n)));
                }
                PlaceElem::Index(l) => proj.push(J::s(format!("[_{}]", l.index()))),
                PlaceElem::ConstantIndex { offset, from_end, .. } => {
                    proj.push(J::s(format!("[{}{}]", if from_end { "-" } else { "" }, offset)))
                }
                PlaceElem::Subslice { from, to, from_end } => {
                    proj.push(J::s(format!("[{}..{}{}]", from, if from_end { "-" } else { "" }, to)))
                }
                PlaceElem::OpaqueCast(_) => proj.push(J::s("opaque")),
                PlaceElem::UnwrapUnsafeBinder(_) => proj.push(J::s("unwrap_binder")),
            }
            pty = pty.projection_ty(self.tcx, elem);
        }
        J::Obj(vec![("l", J::Int(p.local.index() as i128)), ("p", J::Arr(proj))])
    }

    fn place_ty(&self, p: &Place<'tcx>) -> Ty<'tcx> {
        p.ty(self.body, self.tcx).ty
    }

    fn constant(&self, c: &mir::ConstOperand<'tcx>) -> J {
        let ty = c.const_.ty();
        let mut o: Vec<(&'static str, J)> = vec![("k", J::s("const")), ("ty", J::s(tystr(ty)))];
        match ty.kind() {
            ty::FnDef(did, args) => {
                o.push(("fn", J::s(path(self.tcx, *did))));
                o.push(("fn_full", J::s(path_args(self.tcx, *did, args))));
            }
            _ => {}
        }
        let repr = with_no_visible_paths!(with_no_trimmed_paths!(with_resolve_crate_name!(format!("{}", c.const_))));
        o.push(("repr", J::s(repr)));
        if ty.is_integral() || ty.is_bool() || ty.is_char() {
            if let Some(si) = c.const_.try_eval_scalar_int(self.tcx, self.env) {
                let bits = si.to_bits(si.size());
                let v: i128 = if ty.is_signed() {
                    let sz = si.size().bits();
                    if sz == 128 { bits as i128 } else {
                        let shift = 128 - sz;
                        ((bits << shift) as i128) >> shift
                    }
                } else {
                    // u128 values above i128::MAX are printed through repr only
                    if bits > i128::MAX as u128 { -1 } else { bits as i128 }
                };
                o.push(("v", J::Int(v)));
            }
        }
        // pointers to statics / str literals
        if let Some(val) = c.const_.try_eval_scalar(self.tcx, self.env) {
            if let mir::interpret::Scalar::Ptr(ptr, _) = val {
                let alloc_id = ptr.provenance.alloc_id();
                if let Some(ga) = self.tcx.try_get_global_alloc(alloc_id) {
                    if let mir::interpret::GlobalAlloc::Static(sdid) = ga {
                        o.push(("static", J::s(path(self.tcx, sdid))));
                    }
                }
            }
        }
        J::Obj(o)
    }

    fn operand(&self, op: &Operand<'tcx>) -> J {
        match op {
            Operand::Copy(p) => {
                let mut v = vec![("k", J::s("copy"))];
                if let J::Obj(x) = self.place(p) {
                    v.extend(x);
                }
                J::Obj(v)
            }
            Operand::Move(p) => {
                let mut v = vec![("k", J::s("move"))];
                if let J::Obj(x) = self.place(p) {
                    v.extend(x);
                }
                J::Obj(v)
            }
            Operand::Constant(c) => self.constant(c),
            #[allow(unreachable_patterns)]
            _ => J::Obj(vec![("k", J::s("other")), ("repr", J::s(format!("{:?}", op)))]),
        }
    }

    fn rvalue(&self, rv: &Rvalue<'tcx>) -> J {
        match rv {
            Rvalue::Use(op, ..) => J::Obj(vec![("k", J::s("use")), ("op", self.operand(op))]),
            Rvalue::Repeat(op, _) => J::Obj(vec![("k", J::s("repeat")), ("op", self.operand(op))]),
            Rvalue::Ref(_, bk, p) => J::Obj(vec![
                ("k", J::s("ref")),
                ("mut", J::Bool(matches!(bk, mir::BorrowKind::Mut { .. }))),
                ("place", self.place(p)),
            ]),
            Rvalue::ThreadLocalRef(did) => {
                J::Obj(vec![("k", J::s("tls")), ("static", J::s(path(self.tcx, *did)))])
            }
            Rvalue::RawPtr(_, p) => J::Obj(vec![("k", J::s("rawptr")), ("place", self.place(p))]),
            Rvalue::Cast(ck, op, ty) => J::Obj(vec![
                ("k", J::s("cast")),
                ("cast", J::s(format!("{:?}", ck))),
                ("op", self.operand(op)),
                ("ty", J::s(tystr(*ty))),
            ]),
            Rvalue::BinaryOp(bop, ops) => J::Obj(vec![
                ("k", J::s("binop")),
                ("op", J::s(format!("{:?}", bop))),
                ("a", self.operand(&ops.0)),
                ("b", self.operand(&ops.1)),
            ]),
            Rvalue::UnaryOp(uop, op) => J::Obj(vec![
                ("k", J::s("unop")),
                ("op", J::s(format!("{:?}", uop))),
                ("a", self.operand(op)),
            ]),
            Rvalue::Discriminant(p) => {
                let pty = self.place_ty(p);
                let mut variants = Vec::new();
                if let ty::Adt(adt, _) = pty.kind() {
                    if adt.is_enum() {
                        for (vidx, d) in adt.discriminants(self.tcx) {
                            variants.push(J::Arr(vec![
                                J::Int(d.val as i128),
                                J::s(adt.variant(vidx).name.to_string()),
                            ]));
                        }
                    }
                }
                J::Obj(vec![
                    ("k", J::s("discr")),
                    ("place", self.place(p)),
                    ("ty", J::s(tystr(pty))),
                    ("variants", J::Arr(variants)),
                ])
            }
            Rvalue::Aggregate(kind, ops) => {
                let opsj: Vec<J> = ops.iter().map(|o| self.operand(o)).collect();
                match &**kind {
                    AggregateKind::Adt(did, vidx, args, _, active) => {
                        let adt = self.tcx.adt_def(*did);
                        let v = adt.variant(*vidx);
                        let fields: Vec<J> = match active {
                            Some(f) => vec![J::s(v.fields[*f].name.to_string())],
                            None => v.fields.iter().map(|f| J::s(f.name.to_string())).collect(),
                        };
                        J::Obj(vec![
                            ("k", J::s("agg")),
                            ("adt", J::s(path(self.tcx, *did))),
                            ("adt_full", J::s(path_args(self.tcx, *did, args))),
                            ("variant", J::s(v.name.to_string())),
                            ("fields", J::Arr(fields)),
                            ("ops", J::Arr(opsj)),
                        ])
                    }
                    AggregateKind::Closure(did, _)
                    | AggregateKind::Coroutine(did, _)
                    | AggregateKind::CoroutineClosure(did, _) => {
                        let mut caps = Vec::new();
                        if let Some(ld) = did.as_local() {
                            for c in self.tcx.closure_captures(ld) {
                                caps.push(J::s(c.to_symbol().to_string()));
                            }
                        }
                        J::Obj(vec![
                            ("k", J::s("agg")),
                            ("closure", J::s(path(self.tcx, *did))),
                            ("coroutine", J::Bool(matches!(&**kind, AggregateKind::Coroutine(..)))),
                            ("fields", J::Arr(caps)),
                            ("ops", J::Arr(opsj)),
                        ])
                    }
                    AggregateKind::Tuple => J::Obj(vec![("k", J::s("agg")), ("tuple", J::Bool(true)), ("ops", J::Arr(opsj))]),
                    AggregateKind::Array(t) => J::Obj(vec![
                        ("k", J::s("agg")),
                        ("array", J::s(tystr(*t))),
                        ("ops", J::Arr(opsj)),
                    ]),
                    AggregateKind::RawPtr(..) => J::Obj(vec![("k", J::s("agg")), ("rawptr", J::Bool(true)), ("ops", J::Arr(opsj))]),
                }
            }
            Rvalue::CopyForDeref(p) => J::Obj(vec![("k", J::s("use")), ("op", {
                let mut v = vec![("k", J::s("copy"))];
                if let J::Obj(x) = self.place(p) { v.extend(x); }
                J::Obj(v)
            })]),
            other => J::Obj(vec![("k", J::s("other")), ("repr", J::s(format!("{:?}", other)))]),
        }
    }

    fn unwind(&self, u: &UnwindAction) -> J {
        match u {
            UnwindAction::Cleanup(b) => bbj(*b),
            UnwindAction::Continue => J::s("continue"),
            UnwindAction::Unreachable => J::s("unreachable"),
            UnwindAction::Terminate(_) => J::s("terminate"),
        }
    }

    fn call(&mut self, func: &Operand<'tcx>) -> Vec<(&'static str, J)> {
        self.n_calls += 1;
        let fty = func.ty(self.body, self.tcx);
        let mut o: Vec<(&'static str, J)> = Vec::new();
        match fty.kind() {
            ty::FnDef(did, args) => {
                let decl = path(self.tcx, *did);
                o.push(("decl", J::s(decl.clone())));
                o.push(("decl_full", J::s(path_args(self.tcx, *did, args))));
                o.push(("targs", J::Arr(args.iter().map(|a| J::s(with_no_visible_paths!(with_no_trimmed_paths!(with_resolve_crate_name!(a.to_string()))))).collect())));
                if let Some(tr) = self.tcx.trait_of_assoc(*did) {
                    o.push(("trait", J::s(path(self.tcx, tr))));
                }
                let resolved = Instance::try_resolve(self.tcx, self.env, *did, args);
                match resolved {
                    Ok(Some(inst)) => {
                        let rdid = inst.def_id();
                        let (ck, callee) = match inst.def {
                            ty::InstanceKind::Item(_) => ("item", path(self.tcx, rdid)),
                            ty::InstanceKind::Virtual(..) => ("virtual", format!("?{}", decl)),
                            ty::InstanceKind::Intrinsic(_) => ("intrinsic", path(self.tcx, rdid)),
                            ty::InstanceKind::ClosureOnceShim { call_once: _, .. } => {
                                // the closure being called is the self type
                                let self_ty = args.type_at(0);
                                match self_ty.kind() {
                                    ty::Closure(cd, _) => ("item", path(self.tcx, *cd)),
                                    _ => ("shim", path(self.tcx, rdid)),
                                }
                            }
                            ty::InstanceKind::FnPtrShim(..) => ("fnptr", format!("?fnptr:{}", decl)),
                            ty::InstanceKind::DropGlue(..) => ("dropglue", path(self.tcx, rdid)),
                            ty::InstanceKind::CloneShim(..) => ("cloneshim", path(self.tcx, rdid)),
                            _ => ("shim", path(self.tcx, rdid)),
                        };
                        o.push(("ck", J::s(ck)));
                        o.push(("callee", J::s(callee)));
                        o.push(("callee_full", J::s(path_args(self.tcx, rdid, inst.args))));
                    }
                    _ => {
                        o.push(("ck", J::s("unresolved")));
                        o.push(("callee", J::s(format!("?{}", decl))));
                    }
                }
                if self.tcx.trait_of_assoc(*did).is_some() && args.len() > 0 {
                    if let Some(t) = args.get(0).and_then(|a| a.as_type()) {
                        o.push(("self_ty", J::s(tystr(t))));
                    }
                }
            }
            _ => {
                o.push(("ck", J::s("ptr")));
                o.push(("callee", J::s("?fnptr")));
                o.push(("decl", J::s(format!("?fnptr:{}", tystr(fty)))));
                o.push(("func", self.operand(func)));
            }
        }
        o
    }

    /// Drop impls (`Drop::drop` def paths) reachable through the drop glue of `ty`.
    fn glue(&self, ty: Ty<'tcx>, out: &mut BTreeSet<String>, seen: &mut BTreeSet<String>, depth: usize) {
        if depth > 8 {
            return;
        }
        let key = tystr(ty);
        if !seen.insert(key) {
            return;
        }
        match ty.kind() {
            ty::Adt(adt, args) => {
                if adt.is_manually_drop() {
                    return;
                }
                if let Some(d) = adt.destructor(self.tcx) {
                    out.insert(format!("{}|{}", path(self.tcx, d.did), tystr(ty)));
                }
                for v in adt.variants() {
                    for f in v.fields.iter() {
                        let raw = self.tcx.type_of(f.did).instantiate(self.tcx, args);
                        let fty = self
                            .tcx
                            .try_normalize_erasing_regions(self.env, raw)
                            .unwrap_or_else(|_| f.ty(self.tcx, args));
                        self.glue(fty, out, seen, depth + 1);
                    }
                }
                // containers own their type arguments through raw pointers
                if adt.destructor(self.tcx).is_some() || adt.is_box() {
                    for a in args.iter() {
                        if let Some(t) = a.as_type() {
                            self.glue(t, out, seen, depth + 1);
                        }
                    }
                }
            }
            ty::Tuple(ts) => {
                for t in ts.iter() {
                    self.glue(t, out, seen, depth + 1);
                }
            }
            ty::Array(t, _) | ty::Slice(t) => self.glue(*t, out, seen, depth + 1),
            ty::Closure(_, args) => {
                for t in args.as_closure().upvar_tys().iter() {
                    self.glue(t, out, seen, depth + 1);
                }
            }
            ty::Coroutine(_, args) => {
                for t in args.as_coroutine().upvar_tys().iter() {
                    self.glue(t, out, seen, depth + 1);
                }
                out.insert("?coroutine-state".to_string());
            }
            ty::Param(p) => {
                out.insert(format!("?param:{}", p.name));
            }
            ty::Dynamic(..) => {
                out.insert(format!("?dyn:{}", tystr(ty)));
            }
            ty::Alias(..) => {
                out.insert(format!("?alias:{}", tystr(ty)));
            }
            _ => {}
        }
    }

    fn terminator(&mut self, t: &mir::Terminator<'tcx>) -> J {
        let mut o: Vec<(&'static str, J)> = Vec::new();
        match &t.kind {
            TerminatorKind::Goto { target } => {
                o.push(("k", J::s("goto")));
                o.push(("target", bbj(*target)));
            }
            TerminatorKind::SwitchInt { discr, targets } => {
                o.push(("k", J::s("switch")));
                o.push(("discr", self.operand(discr)));
                o.push(("discr_ty", J::s(tystr(discr.ty(self.body, self.tcx)))));
                let mut ts = Vec::new();
                for (v, b) in targets.iter() {
                    let vi: i128 = if v > i128::MAX as u128 { -1 } else { v as i128 };
                    ts.push(J::Arr(vec![J::Int(vi), bbj(b)]));
                }
                o.push(("targets", J::Arr(ts)));
                o.push(("otherwise", bbj(targets.otherwise())));
            }
            TerminatorKind::UnwindResume => o.push(("k", J::s("resume"))),
            TerminatorKind::UnwindTerminate(_) => o.push(("k", J::s("abort"))),
            TerminatorKind::Return => o.push(("k", J::s("return"))),
            TerminatorKind::Unreachable => o.push(("k", J::s("unreachable"))),
            TerminatorKind::Drop { place, target, unwind, .. } => {
                o.push(("k", J::s("drop")));
                o.push(("place", self.place(place)));
                let pty = self.place_ty(place);
                o.push(("ty", J::s(tystr(pty))));
                let mut out = BTreeSet::new();
                let mut seen = BTreeSet::new();
                self.glue(pty, &mut out, &mut seen, 0);
                o.push(("glue", J::Arr(out.into_iter().map(J::s).collect())));
                o.push(("target", bbj(*target)));
                o.push(("unwind", self.unwind(unwind)));
            }
            TerminatorKind::Call { func, args, destination, target, unwind, fn_span, .. } => {
                o.push(("k", J::s("call")));
                o.extend(self.call(func));
                o.push(("args", J::Arr(args.iter().map(|a| self.operand(&a.node)).collect())));
                o.push(("arg_tys", J::Arr(args.iter().map(|a| J::s(tystr(a.node.ty(self.body, self.tcx)))).collect())));
                o.push(("dest", self.place(destination)));
                o.push(("dest_ty", J::s(tystr(self.place_ty(destination)))));
                o.push(("target", match target { Some(b) => bbj(*b), None => J::Null }));
                o.push(("unwind", self.unwind(unwind)));
                o.push(("expn", J::Bool(fn_span.from_expansion())));
            }
            TerminatorKind::TailCall { func, args, .. } => {
                o.push(("k", J::s("call")));
                o.extend(self.call(func));
                o.push(("args", J::Arr(args.iter().map(|a| self.operand(&a.node)).collect())));
                o.push(("tail", J::Bool(true)));
                o.push(("target", J::Null));
            }
            TerminatorKind::Assert { cond, expected, msg, target, unwind } => {
                o.push(("k", J::s("assert")));
                o.push(("cond", self.operand(cond)));
                o.push(("expected", J::Bool(*expected)));
                let kind = format!("{:?}", msg);
                let kind = kind.split('(').next().unwrap_or("").to_string();
                o.push(("msg", J::s(kind)));
                o.push(("target", bbj(*target)));
                o.push(("unwind", self.unwind(unwind)));
            }
            TerminatorKind::Yield { value, resume, drop, .. } => {
                o.push(("k", J::s("yield")));
                o.push(("value", self.operand(value)));
                o.push(("target", bbj(*resume)));
                o.push(("drop", match drop { Some(b) => bbj(*b), None => J::Null }));
            }
            TerminatorKind::CoroutineDrop => o.push(("k", J::s("coroutine_drop"))),
            TerminatorKind::FalseEdge { real_target, .. } => {
                o.push(("k", J::s("goto")));
                o.push(("target", bbj(*real_target)));
            }
            TerminatorKind::FalseUnwind { real_target, .. } => {
                o.push(("k", J::s("goto")));
                o.push(("target", bbj(*real_target)));
            }
            TerminatorKind::InlineAsm { .. } => o.push(("k", J::s("asm"))),
        }
        o.push(("span", J::s(loc(self.tcx, t.source_info.span))));
        J::Obj(o)
    }

    fn blocks(&mut self) -> J {
        let mut bs = Vec::new();
        for (_bb, data) in self.body.basic_blocks.iter_enumerated() {
            let mut stmts = Vec::new();
            for s in data.statements.iter() {
                match &s.kind {
                    StatementKind::Assign(b) => {
                        let (lhs, rv) = &**b;
                        stmts.push(J::Obj(vec![
                            ("k", J::s("assign")),
                            ("lhs", self.place(lhs)),
                            ("rv", self.rvalue(rv)),
                            ("span", J::s(loc(self.tcx, s.source_info.span))),
                        ]));
                    }
                    StatementKind::SetDiscriminant { place, variant_index } => {
                        let pty = self.place_ty(place);
                        let vname = match pty.kind() {
                            ty::Adt(adt, _) if adt.is_enum() => adt.variant(*variant_index).name.to_string(),
                            _ => variant_index.index().to_string(),
                        };
                        stmts.push(J::Obj(vec![
                            ("k", J::s("setdiscr")),
                            ("lhs", self.place(place)),
                            ("variant", J::s(vname)),
                            ("span", J::s(loc(self.tcx, s.source_info.span))),
                        ]));
                    }
                    _ => {}
                }
            }
            let term = self.terminator(data.terminator());
            bs.push(J::Obj(vec![
                ("cleanup", J::Bool(data.is_cleanup)),
                ("stmts", J::Arr(stmts)),
                ("term", term),
            ]));
        }
        J::Arr(bs)
    }
}

fn dump_fn<'tcx>(tcx: TyCtxt<'tcx>, def: LocalDefId, n_calls: &mut usize) -> Option<J> {
    let kind = tcx.def_kind(def);
    let did = def.to_def_id();
    let steal = tcx.mir_drops_elaborated_and_const_checked(def);
    let guard;
    let (body, phase): (&Body<'tcx>, &str) = if !steal.is_stolen() {
        guard = steal.borrow();
        (&*guard, "drops_elaborated")
    } else {
        (tcx.optimized_mir(did), "optimized")
    };
    let env = TypingEnv::post_analysis(tcx, did);
    let mut cx = Cx { tcx, body, def, env, n_calls: 0 };

    let mut o: Vec<(&'static str, J)> = Vec::new();
    o.push(("path", J::s(path(tcx, did))));
    o.push(("kind", J::s(format!("{:?}", kind))));
    o.push(("phase", J::s(phase)));
    o.push(("span", J::s(loc(tcx, tcx.def_span(did)))));
    o.push(("expn", J::Bool(tcx.def_span(did).from_expansion())));
    let parent = tcx.local_parent(def);
    o.push(("parent", J::s(path(tcx, parent.to_def_id()))));
    o.push(("root", J::s(path(tcx, tcx.typeck_root_def_id(did)))));
    if let Some(ck) = tcx.coroutine_kind(did) {
        o.push(("coroutine", J::s(format!("{:?}", ck))));
    }
    if matches!(kind, DefKind::Fn | DefKind::AssocFn) {
        let vis = tcx.visibility(did).is_public();
        let ev = tcx.effective_visibilities(());
        o.push(("pub", J::Bool(vis)));
        o.push(("reachable", J::Bool(ev.is_reachable(def))));
        o.push(("exported", J::Bool(ev.is_exported(def))));
        let sig = tcx.fn_sig(did).instantiate_identity().skip_norm_wip().skip_binder();
        o.push(("inputs", J::Arr(sig.inputs().iter().map(|t| J::s(tystr(*t))).collect())));
        o.push(("output", J::s(tystr(sig.output()))));
        o.push(("asyncness", J::Bool(tcx.asyncness(did).is_async())));
        // impl context
        if kind == DefKind::AssocFn {
            let p = tcx.parent(did);
            if matches!(tcx.def_kind(p), DefKind::Impl { .. }) {
                let self_ty = tcx.type_of(p).instantiate_identity().skip_norm_wip();
                o.push(("impl_self", J::s(tystr(self_ty))));
                if let Some(tr) = tcx.impl_opt_trait_ref(p) {
                    let tr = tr.instantiate_identity().skip_norm_wip();
                    o.push(("impl_trait", J::s(path(tcx, tr.def_id))));
                }
            } else if tcx.def_kind(p) == DefKind::Trait {
                o.push(("in_trait", J::s(path(tcx, p))));
            }
        }
    }
    // generics + predicates (own and parents')
    {
        let mut names = Vec::new();
        let mut g = Some(tcx.generics_of(did));
        while let Some(gen) = g {
            for p in gen.own_params.iter() {
                names.push(J::s(p.name.to_string()));
            }
            g = gen.parent.map(|p| tcx.generics_of(p));
        }
        o.push(("generics", J::Arr(names)));
        let mut ps: Vec<J> = Vec::new();
        let mut cur = Some(did);
        while let Some(d) = cur {
            let gp = tcx.predicates_of(d);
            for (c, _) in gp.predicates.iter() {
                ps.push(J::s(with_no_visible_paths!(with_no_trimmed_paths!(with_resolve_crate_name!(c.to_string())))));
            }
            cur = gp.parent;
        }
        o.push(("predicates", J::Arr(ps)));
    }
    if matches!(kind, DefKind::Closure) {
        let mut caps = Vec::new();
        for c in tcx.closure_captures(def) {
            caps.push(J::Obj(vec![
                ("name", J::s(c.to_symbol().to_string())),
                ("ty", J::s(tystr(c.place.ty()))),
                ("by_ref", J::Bool(matches!(c.info.capture_kind, ty::UpvarCapture::ByRef(_)))),
            ]));
        }
        o.push(("captures", J::Arr(caps)));
    }
    o.push(("arg_count", J::Int(body.arg_count as i128)));
    let mut locals = Vec::new();
    for (_l, d) in body.local_decls.iter_enumerated() {
        locals.push(J::s(tystr(d.ty)));
    }
    o.push(("locals", J::Arr(locals)));
    let mut names = Vec::new();
    for vdi in body.var_debug_info.iter() {
        if let mir::VarDebugInfoContents::Place(p) = &vdi.value {
            names.push(J::Obj(vec![("name", J::s(vdi.name.to_string())), ("place", cx.place(p))]));
        }
    }
    o.push(("names", J::Arr(names)));
    o.push(("blocks", cx.blocks()));
    *n_calls += cx.n_calls;
    // promoted constants (e.g. `&Instant::ZERO` used in a comparison) as tiny bodies
    {
        let mut ps = Vec::new();
        for pb in tcx.promoted_mir(did).iter() {
            let mut pcx = Cx { tcx, body: pb, def, env, n_calls: 0 };
            let mut locals = Vec::new();
            for (_l, d) in pb.local_decls.iter_enumerated() {
                locals.push(J::s(tystr(d.ty)));
            }
            ps.push(J::Obj(vec![("locals", J::Arr(locals)), ("blocks", pcx.blocks())]));
        }
        o.push(("promoted", J::Arr(ps)));
    }
    let _ = cx.def;
    Some(J::Obj(o))
}

fn auto_traits<'tcx>(tcx: TyCtxt<'tcx>, did: DefId, ty: Ty<'tcx>) -> J {
    let param_env = tcx.param_env(did);
    let infcx = tcx.infer_ctxt().build(ty::TypingMode::non_body_analysis());
    let mut o = Vec::new();
    let li = tcx.lang_items();
    let traits: Vec<(&'static str, Option<DefId>)> = vec![
        ("Send", tcx.get_diagnostic_item(sym::Send)),
        ("Sync", li.sync_trait()),
        ("Clone", li.clone_trait()),
        ("Copy", li.copy_trait()),
        ("Unpin", li.unpin_trait()),
    ];
    for (name, t) in traits {
        if let Some(t) = t {
            let r = infcx.type_implements_trait(t, [ty], param_env).must_apply_modulo_regions();
            o.push((name, J::Bool(r)));
        }
    }
    J::Obj(o)
}

pub fn collect<'tcx>(tcx: TyCtxt<'tcx>, formats: Vec<J>) -> J {
    let mut fns = Vec::new();
    let mut n_calls = 0usize;
    for def in tcx.hir_body_owners() {
        let kind = tcx.def_kind(def);
        if !matches!(kind, DefKind::Fn | DefKind::AssocFn | DefKind::Closure) {
            continue;
        }
        if let Some(j) = dump_fn(tcx, def, &mut n_calls) {
            fns.push(j);
        }
    }

    let mut adts = Vec::new();
    let mut statics = Vec::new();
    let mut consts = Vec::new();
    for def in tcx.hir_crate_items(()).definitions() {
        let did = def.to_def_id();
        match tcx.def_kind(def) {
            DefKind::Struct | DefKind::Enum | DefKind::Union => {
                let adt = tcx.adt_def(did);
                let ty = tcx.type_of(did).instantiate_identity().skip_norm_wip();
                let mut variants = Vec::new();
                for v in adt.variants() {
                    let mut fields = Vec::new();
                    for f in v.fields.iter() {
                        let fty = tcx.type_of(f.did).instantiate_identity().skip_norm_wip();
                        fields.push(J::Obj(vec![
                            ("name", J::s(f.name.to_string())),
                            ("ty", J::s(tystr(fty))),
                            ("pub", J::Bool(tcx.visibility(f.did).is_public())),
                        ]));
                    }
                    variants.push(J::Obj(vec![("name", J::s(v.name.to_string())), ("fields", J::Arr(fields))]));
                }
                let ev = tcx.effective_visibilities(());
                adts.push(J::Obj(vec![
                    ("path", J::s(path(tcx, did))),
                    ("ty", J::s(tystr(ty))),
                    ("kind", J::s(format!("{:?}", tcx.def_kind(def)))),
                    ("variants", J::Arr(variants)),
                    ("drop", match adt.destructor(tcx) { Some(d) => J::s(path(tcx, d.did)), None => J::Null }),
                    ("auto", auto_traits(tcx, did, ty)),
                    ("reachable", J::Bool(ev.is_reachable(def))),
                    ("span", J::s(loc(tcx, tcx.def_span(did)))),
                ]));
            }
            DefKind::Static { .. } => {
                let ty = tcx.type_of(did).instantiate_identity().skip_norm_wip();
                statics.push(J::Obj(vec![
                    ("path", J::s(path(tcx, did))),
                    ("ty", J::s(tystr(ty))),
                    ("thread_local", J::Bool(tcx.is_thread_local_static(did))),
                    ("span", J::s(loc(tcx, tcx.def_span(did)))),
                ]));
            }
            DefKind::Const { .. } | DefKind::AssocConst { .. } => {
                let ty = tcx.type_of(did).instantiate_identity().skip_norm_wip();
                let mut o = vec![("path", J::s(path(tcx, did))), ("ty", J::s(tystr(ty)))];
                if (ty.is_integral() || ty.is_bool()) && tcx.generics_of(did).is_empty() {
                    if let Ok(v) = tcx.const_eval_poly(did) {
                        if let Some(si) = v.try_to_scalar_int() {
                            let bits = si.to_bits(si.size());
                            if bits <= i128::MAX as u128 {
                                o.push(("v", J::Int(bits as i128)));
                            }
                        }
                    }
                }
                consts.push(J::Obj(o));
            }
            _ => {}
        }
    }

    let mut impls = Vec::new();
    for (tr, list) in tcx.all_local_trait_impls(()).iter() {
        for imp in list.iter() {
            let idid = imp.to_def_id();
            let self_ty = tcx.type_of(idid).instantiate_identity().skip_norm_wip();
            impls.push(J::Obj(vec![
                ("trait", J::s(path(tcx, *tr))),
                ("self_ty", J::s(tystr(self_ty))),
                ("span", J::s(loc(tcx, tcx.def_span(idid)))),
                ("expn", J::Bool(tcx.def_span(idid).from_expansion())),
            ]));
        }
    }

    let sess = tcx.sess;
    let mut cfgs: Vec<String> = sess
        .config
        .iter()
        .map(|(k, v)| match v {
            Some(v) => format!("{}={}", k, v),
            None => k.to_string(),
        })
        .filter(|s| s.starts_with("feature=") || s == "debug_assertions" || s == "test" || s.starts_with("fastrace"))
        .collect();
    cfgs.sort();
    let meta = J::Obj(vec![
        ("crate", J::s(tcx.crate_name(LOCAL_CRATE).to_string())),
        ("cfg", J::Arr(cfgs.into_iter().map(J::s).collect())),
        ("n_fns", J::Int(fns.len() as i128)),
        ("n_calls", J::Int(n_calls as i128)),
        ("is_test", J::Bool(sess.is_test_crate())),
        ("crate_types", J::Arr(tcx.crate_types().iter().map(|c| J::s(format!("{:?}", c))).collect())),
    ]);

    J::Obj(vec![
        ("meta", meta),
        ("fns", J::Arr(fns)),
        ("adts", J::Arr(adts)),
        ("statics", J::Arr(statics)),
        ("consts", J::Arr(consts)),
        ("impls", J::Arr(impls)),
        ("formats", J::Arr(formats)),
    ])
}
