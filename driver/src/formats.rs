//! Format descriptors from the expanded AST (`ExprKind::FormatArgs`).
//! In MIR the template is an opaque byte string, so widths / fill / traits are read here.

use rustc_ast as ast;
use rustc_ast::visit::{self, AssocCtxt, Visitor};
use rustc_ast_pretty::pprust;
use rustc_middle::ty::TyCtxt;

use crate::json::J;

struct V<'a, 'tcx> {
    tcx: TyCtxt<'tcx>,
    stack: Vec<String>,
    out: &'a mut Vec<J>,
}

fn count_to_j(c: &Option<ast::FormatCount>) -> J {
    match c {
        None => J::Null,
        Some(ast::FormatCount::Literal(n)) => J::Int(*n as i128),
        Some(ast::FormatCount::Argument(p)) => J::Obj(vec![(
            "arg",
            match p.index {
                Ok(i) => J::Int(i as i128),
                Err(_) => J::Null,
            },
        )]),
    }
}

impl<'a, 'tcx> V<'a, 'tcx> {
    fn record(&mut self, fa: &ast::FormatArgs) {
        let sm = self.tcx.sess.source_map();
        let mut pieces = Vec::new();
        for p in fa.template.iter() {
            match p {
                ast::FormatArgsPiece::Literal(sym) => {
                    pieces.push(J::Obj(vec![("lit", J::s(sym.as_str()))]));
                }
                ast::FormatArgsPiece::Placeholder(ph) => {
                    let o = &ph.format_options;
                    let tr = format!("{:?}", ph.format_trait);
                    pieces.push(J::Obj(vec![
                        (
                            "arg",
                            match ph.argument.index {
                                Ok(i) => J::Int(i as i128),
                                Err(_) => J::Null,
                            },
                        ),
                        ("trait", J::s(tr)),
                        ("width", count_to_j(&o.width)),
                        ("precision", count_to_j(&o.precision)),
                        ("fill", match o.fill { Some(c) => J::s(c.to_string()), None => J::Null }),
                        (
                            "align",
                            match o.alignment {
                                Some(a) => J::s(format!("{:?}", a)),
                                None => J::Null,
                            },
                        ),
                        ("zero_pad", J::Bool(o.zero_pad)),
                        ("alternate", J::Bool(o.alternate)),
                        ("sign", match o.sign { Some(s) => J::s(format!("{:?}", s)), None => J::Null }),
                        ("debug_hex", match o.debug_hex { Some(s) => J::s(format!("{:?}", s)), None => J::Null }),
                    ]));
                }
            }
        }
        let args: Vec<J> = fa
            .arguments
            .all_args()
            .iter()
            .map(|a| J::s(pprust::expr_to_string(&a.expr)))
            .collect();
        let lo = sm.lookup_char_pos(fa.span.lo());
        self.out.push(J::Obj(vec![
            ("item", J::Arr(self.stack.iter().map(|s| J::s(s.clone())).collect())),
            ("pieces", J::Arr(pieces)),
            ("args", J::Arr(args)),
            ("span", J::s(format!("{}:{}", lo.file.name.prefer_local_unconditionally(), lo.line))),
        ]));
    }
}

fn item_label(i: &ast::Item) -> String {
    match &i.kind {
        ast::ItemKind::Impl(imp) => {
            let self_ty = pprust::ty_to_string(&imp.self_ty);
            match &imp.of_trait {
                Some(t) => format!("impl {} for {}", pprust::path_to_string(&t.trait_ref.path), self_ty),
                None => format!("impl {}", self_ty),
            }
        }
        k => match k.ident() {
            Some(id) => id.to_string(),
            None => "_".to_string(),
        },
    }
}

impl<'a, 'ast, 'tcx> Visitor<'ast> for V<'a, 'tcx> {
    fn visit_item(&mut self, i: &'ast ast::Item) {
        self.stack.push(item_label(i));
        visit::walk_item(self, i);
        self.stack.pop();
    }
    fn visit_assoc_item(&mut self, i: &'ast ast::AssocItem, ctxt: AssocCtxt) {
        let name = match i.kind.ident() {
            Some(id) => id.to_string(),
            None => "_".to_string(),
        };
        self.stack.push(name);
        visit::walk_assoc_item(self, i, ctxt);
        self.stack.pop();
    }
    fn visit_expr(&mut self, e: &'ast ast::Expr) {
        if let ast::ExprKind::FormatArgs(fa) = &e.kind {
            self.record(fa);
        }
        visit::walk_expr(self, e);
    }
}

pub fn collect<'tcx>(tcx: TyCtxt<'tcx>) -> Vec<J> {
    let mut out = Vec::new();
    let resolver_and_krate = tcx.resolver_for_lowering().borrow();
    let krate = &*resolver_and_krate.1;
    let mut v = V { tcx, stack: Vec::new(), out: &mut out };
    visit::walk_crate(&mut v, krate);
    drop(resolver_and_krate);
    out
}
