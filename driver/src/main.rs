//! mirfacts: a rustc driver that prints the type-checked program as JSON facts.
//!
//! Used as RUSTC_WORKSPACE_WRAPPER: argv = [mirfacts, <rustc>, rustc args...].
//! It compiles exactly as rustc would and, when MIRFACTS_OUT is set, additionally
//! writes one JSON file per compiled workspace crate with:
//!   fns (MIR bodies after drop elaboration), adts, statics, impls, formats (from the
//!   expanded AST), meta.
//! The driver decides nothing; all rules live in /verif/rules (Python).

#![feature(rustc_private)]
#![allow(clippy::all)]

extern crate rustc_abi;
extern crate rustc_ast;
extern crate rustc_ast_pretty;
extern crate rustc_data_structures;
extern crate rustc_driver;
extern crate rustc_hir;
extern crate rustc_infer;
extern crate rustc_interface;
extern crate rustc_middle;
extern crate rustc_session;
extern crate rustc_span;
extern crate rustc_trait_selection;

mod facts;
mod formats;
mod json;

use std::sync::Mutex;

use json::J;
use rustc_driver::Compilation;
use rustc_interface::interface::Compiler;
use rustc_middle::ty::TyCtxt;

pub struct Facts {
    formats: Mutex<Vec<J>>,
    out_dir: String,
    tag: String,
}

impl rustc_driver::Callbacks for Facts {
    fn after_expansion<'tcx>(&mut self, _c: &Compiler, tcx: TyCtxt<'tcx>) -> Compilation {
        let v = formats::collect(tcx);
        *self.formats.lock().unwrap() = v;
        Compilation::Continue
    }

    fn after_analysis<'tcx>(&mut self, _c: &Compiler, tcx: TyCtxt<'tcx>) -> Compilation {
        let formats = std::mem::take(&mut *self.formats.lock().unwrap());
        let doc = facts::collect(tcx, formats);
        let mut s = String::with_capacity(1 << 20);
        doc.write(&mut s);
        let krate = tcx.crate_name(rustc_span::def_id::LOCAL_CRATE).to_string();
        let path = format!("{}/{}.{}.json", self.out_dir, krate, self.tag);
        let tmp = format!("{}.tmp{}", path, std::process::id());
        std::fs::write(&tmp, s).expect("mirfacts: cannot write facts");
        std::fs::rename(&tmp, &path).expect("mirfacts: cannot rename facts");
        Compilation::Continue
    }
}

struct Plain;
impl rustc_driver::Callbacks for Plain {}

fn main() {
    let mut args: Vec<String> = std::env::args().collect();
    // Drop our own name; argv[1] (path to rustc) becomes argv[0] of the compiler.
    args.remove(0);

    let out_dir = std::env::var("MIRFACTS_OUT").ok();
    let has_input = args.iter().any(|a| a.ends_with(".rs"));
    let is_build_script = args
        .windows(2)
        .any(|w| w[0] == "--crate-name" && w[1].starts_with("build_script_"));
    let printing = args.iter().any(|a| a.starts_with("--print") || a == "-vV" || a == "-V");

    if out_dir.is_none() || !has_input || is_build_script || printing {
        rustc_driver::run_compiler(&args, &mut Plain);
        return;
    }
    let is_test = args.iter().any(|a| a == "--test");
    let mut meta = String::from("nometa");
    for a in &args {
        if let Some(m) = a.strip_prefix("metadata=") {
            meta = m.to_string();
        }
    }
    let tag = format!("{}{}", if is_test { "test-" } else { "" }, meta);
    let mut cb = Facts { formats: Mutex::new(Vec::new()), out_dir: out_dir.unwrap(), tag };
    rustc_driver::run_compiler(&args, &mut cb);
}
