"""C08 -- the collector keeps state only for unfinished traces and live threads."""
from .. import collector, spsc


def check(ctx):
    ctx.explanation = (
        "MIR rules over GlobalCollector::handle_commands and spsc::Receiver::try_recv (config E): R1 every scratch "
        "vector is drained/cleared on every path from where it may have been pushed to the return, and every other container "
        "field of GlobalCollector (the one-cycle list of ids finished before their start) is cleared each cycle; R2 the only growing "
        "operation on active_collectors is one insert keyed by StartCollect.collect_id, every CommitCollect removes its "
        "entry unconditionally, DropCollect removes it, span_collections/danglings grow only in the submit phase / "
        "amend_*, and start_collect announces exactly the fresh id it returns; R3 the drain closure removes a receiver only on Err(ChannelClosed), and try_recv reports closed "
        "only after is_abandoned() and a second pop, the registry is filtered in place under its lock, and a danglings map exists only inside ActiveCollector; R4 the StartCollect insert must be conditional on the id not being "
        "finished already; R5 parked signals are visible to the collector (known finding K2); R6 CommitCollect / DropCollect "
        "go through force_send, which parks instead of dropping, and a parked command that meets a full ring on replay is put "
        "back (a lost finish signal retains its trace's entry for ever). R7 StartCollect stays on the droppable send path (a parked start arrives after its commit was forgotten and its entry is never removed).")
    ctx.explanation += (' Round 5: R2 the collect id is the result of one fetch_add on the process-wide counter itself (helpers inlined; no arithmetic, no thread-local origin); R6 commit_collect / drop_collect send their signal on every path.')
    ctx.not_decided = ("that retained state IS bounded after every history (the rules pin down who grows and who shrinks "
                       "each container and on which paths; counting entries over histories is a runtime quantity).")
    facts = ctx.facts("E")
    c = collector.Collector(ctx, facts)
    if not c.need("R1"):
        return
    collector.rule_scratch_emptied(ctx, c, "R1")
    collector.rule_other_containers_emptied(ctx, c, "R1")
    collector.rule_map_ops(ctx, c, "R2")
    from .. import provrules
    provrules.rule_collect_ids(ctx, facts, "R2")
    provrules.rule_not_sampled_sentinel(ctx, facts, "R2")
    collector.rule_drain_keeps_live(ctx, c, "R3")
    collector.rule_registry_in_place(ctx, c, "R3")
    spsc.rule_try_recv(ctx, facts, "R3")
    collector.rule_insert_tolerates_late_start(ctx, c, "R4")
    spsc.rule_parked_visible_to_collector(ctx, facts, "R5")
    # a finish / cancel signal that is lost leaves its trace's entry in active_collectors for good
    from .. import spanrules
    other = spanrules.rule_signals_forced(ctx, facts, "R6")
    # ... and a StartCollect that could be parked arrives after its trace's commit has been forgotten: its late insert is never
    # removed (the start must stay on the droppable path, where it is either read in order or lost)
    from .. import scopes
    scopes.rule_start_droppable(ctx, facts, "R7", other or {})
    spsc.rule_force_send_keeps(ctx, facts, "R6")
    spsc.rule_replay_keeps(ctx, facts, "R6")
