"""Rule bundles shared by several properties."""
from .. import collector, provrules, scopes, spanrules, spsc


def delivery_bundle(ctx, facts, rule):
    """What every "X is delivered" property needs from the machinery between a finished span and the reporter, whatever X is:
    each of these is a necessary condition of delivery as such (break it and some finished span of a sampled trace is lost), so a
    property that promises delivery of a particular kind of record inherits it. Re-keyed under one rule id of the calling
    property; the obligations are the same ones C01 / C02 / C05 / C10 state in their own right."""
    def run(sub):
        c = collector.Collector(sub, facts)
        if c.need("B"):
            collector.rule_drain_keeps_live(sub, c, "B")          # every queue read to its end, live queues kept, closed ones removed
            collector.rule_registry_in_place(sub, c, "B")         # a thread registering during the drain is not lost
            collector.rule_stale_kept(sub, c, "B")                # a set whose trace was released earlier still goes out (unless cancelable)
            spanrules.rule_fanout(sub, c, "B")                    # a shared set reaches every parent trace
        spsc.rule_try_recv(sub, facts, "B")                       # closed means closed and empty
        provrules.rule_choke_point(sub, facts, "B")               # only unsampled items are filtered out, once
        provrules.rule_scope_sampling(sub, facts, "B")            # a scope records iff any parent is sampled
        scopes.rule_scope_always_opened(sub, facts, "B")          # setting a local parent opens a scope
        spanrules.rule_noop_only_without_parent(sub, facts, "B")  # a span with a recording parent is a span
    ctx.rekeyed(run, {"B": rule})


def scope_bundle(ctx, facts, rule):
    """What every property that speaks of "the local parent in effect" needs from the per-thread scope stack (the obligations C10
    states in its own right): scopes are opened on every path and refused only when the stack is full, released scopes are popped
    and leave no state behind, the stack is looked at from its top only, and it is the only per-thread context there is."""
    def run(sub):
        scopes.rule_scope_always_opened(sub, facts, "B")
        scopes.rule_refuses_only_when_full(sub, facts, "B")
        scopes.rule_unregister_always_pops(sub, facts, "B")
        scopes.rule_scope_state_restored(sub, facts, "B")
        scopes.rule_span_lines_innermost_only(sub, facts, "B")
        scopes.rule_local_context_is_the_stack(sub, facts, "B")
        scopes.rule_inert_without_scope(sub, facts, "B")
        provrules.rule_scope_parent(sub, facts, "B")
    ctx.rekeyed(run, {"B": rule})
