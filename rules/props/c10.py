"""C10 -- local parent scopes nest and restore exactly."""
from .. import provrules, scopes, witness


def check(ctx):
    ctx.explanation = (
        "Config E: R1 LocalParentGuard, LocalSpan and LocalCollector are neither Send nor Sync (trait-solver answers from "
        "the driver, Span: Send as control) and four compile-fail witnesses with compiling twins confirm it through rustc "
        "itself; R2 span_lines is pushed only by register_span_line (called only from LocalCollector::new) and popped only "
        "by unregister_and_collect; collect_spans_and_token and LocalCollector::drop take() the handle before closing the "
        "scope; LocalParentGuard::drop and LocalSpan::drop close their scope/span on every path from inner = Some, and capture_local_spans / LocalCollector::new open a scope on every path; R3 "
        "SpanQueue::finish_span restores next_parent_id from the finished span's stored parent, and SpanLine::{finish_span, "
        "with_properties, collect} act only for a handle of their own epoch; R4 the six LocalSpanStack operations reach "
        "SpanLine only across span_lines.last_mut() = Some; R2 also: the handle that closes a scope is moved out of its guard "
        "only in the guard's Drop / consuming collect (a panicking property closure unwinds through a full guard); R5 local "
        "properties and events are recorded as new queue entries under next_parent_id (never appended to an earlier entry); R6 a scope refused at the per-thread scope limit must leave a trace in the "
        "stack (known finding K4: it does not, so operations under the refused local parent act on the enclosing scope); R7 the scope "
        "limit is the only reason to refuse a scope: every other path of register_span_line pushes the new span line. R8 the scope stack is only accessed from its top; R9 scope state written on open is written on release, and the local operations reach no thread-local besides the scope stack (and the ones of the confirmed tree).")
    ctx.explanation += (' Round 5: R3 also -- SpanLine::finish_span reaches SpanQueue::finish_span for every handle of its own epoch (accepted reasons to skip: foreign epoch, never-recording scope).')
    ctx.not_decided = ("the frame condition for arbitrary nesting depth (it follows from the stack discipline R2 pins down, "
                       "but equality of 'context before' and 'context after' is a state property).")
    facts = ctx.facts("E")
    scopes.rule_not_send(ctx, facts, "R1")
    witness.run(ctx, "R1", ["send_guard", "send_local_span", "send_local_collector", "sync_guard"])
    scopes.rule_scope_pairing(ctx, facts, "R2")
    scopes.rule_scope_always_opened(ctx, facts, "R2")
    scopes.rule_handle_stays_in_guard(ctx, facts, "R2")
    scopes.rule_unregister_always_pops(ctx, facts, "R2")
    provrules.rule_scope_parent(ctx, facts, "R3")
    scopes.rule_epochs(ctx, facts, "R3")
    scopes.rule_epoch_representation(ctx, facts, "R3")
    scopes.rule_inert_without_scope(ctx, facts, "R4")
    # "where subsequent local properties and events attach": every local attachment is a new queue entry under the
    # current parent, never appended to an entry recorded earlier (which may belong to a scope that has ended)
    provrules.rule_attachments_are_new_entries(ctx, facts, "R5")
    provrules.rule_pseudo_spans(ctx, facts, "R5")
    scopes.rule_refused_scope_masks(ctx, facts, "R6")
    scopes.rule_refuses_only_when_full(ctx, facts, "R7")
    scopes.rule_span_lines_innermost_only(ctx, facts, "R8")
    scopes.rule_scope_state_restored(ctx, facts, "R9")
    scopes.rule_local_context_is_the_stack(ctx, facts, "R9")
