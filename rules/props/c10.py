"""C10 -- local parent scopes nest and restore exactly."""
from .. import provrules, scopes, witness


def check(ctx):
    ctx.explanation = (
        "Config E: R1 LocalParentGuard, LocalSpan and LocalCollector are neither Send nor Sync (trait-solver answers from "
        "the driver, Span: Send as control) and four compile-fail witnesses with compiling twins confirm it through rustc "
        "itself; R2 span_lines is pushed only by register_span_line (called only from LocalCollector::new) and popped only "
        "by unregister_and_collect; collect_spans_and_token and LocalCollector::drop take() the handle before closing the "
        "scope; LocalParentGuard::drop and LocalSpan::drop close their scope/span on every path from inner = Some, and capture_local_spans / LocalCollector::new open a scope on every path; R3 "
        "SpanQueue::finish_span restores next_parent_id from the finished span's stored parent, and SpanLine::{finish_span, "
        "with_properties, collect} act only for a handle of their own epoch; R4 the six LocalSpanStack operations reach "
        "SpanLine only across span_lines.last_mut() = Some.")
    ctx.not_decided = ("the frame condition for arbitrary nesting depth (it follows from the stack discipline R2 pins down, "
                       "but equality of 'context before' and 'context after' is a state property).")
    facts = ctx.facts("E")
    scopes.rule_not_send(ctx, facts, "R1")
    witness.run(ctx, "R1", ["send_guard", "send_local_span", "send_local_collector", "sync_guard"])
    scopes.rule_scope_pairing(ctx, facts, "R2")
    scopes.rule_scope_always_opened(ctx, facts, "R2")
    provrules.rule_scope_parent(ctx, facts, "R3")
    scopes.rule_epochs(ctx, facts, "R3")
    scopes.rule_epoch_representation(ctx, facts, "R3")
    scopes.rule_inert_without_scope(ctx, facts, "R4")
