"""C07 -- tracing calls never panic, block or deadlock the host."""
import re

from .. import collector, panics, spsc
from ..core import Prov, callee_is, has_origin, origin_strs, passes_downcast, root_local, sites_star, bool_cond_edges

LOCK_RX = r"lock_api::mutex::Mutex::<R, T>::lock$|std::sync::(poison::)?mutex::Mutex::<T>::lock$|lock_api::rwlock::RwLock::<R, T>::(read|write)$"
BLOCK_RX = (r"std::thread::(functions::)?(sleep|park|park_timeout|yield_now)$|Condvar::wait\w*$|JoinHandle::<T>::join$|"
            r"mpsc::Receiver::<T>::recv(_timeout)?$|sync::Barrier::wait$|lock_api::mutex::Mutex::<R, T>::lock$|"
            r"std::sync::(poison::)?mutex::Mutex::<T>::lock$")
NONBLOCK_ROOT_EXCL = re.compile(r"global_collector::(flush|set_reporter)$")


def run_inventory(ctx, facts, cfgname, rule="R1", bodies_filter=None, quiet_ok=False):
    inv = panics.Inventory(ctx, facts, cfgname)
    prov = inv.prov
    c = collector.Collector(ctx, facts)
    sites = inv.sites()
    if bodies_filter is not None:
        sites = [s for s in sites if bodies_filter(s[0])]
    qh_ok, qh_detail = panics.queue_handle_invariant(facts, prov)
    per_fn_count = {}
    residual = []
    n_borrow = 0
    for fn, b, kind, msg in sites:
        t = fn.term(b)
        per_fn_count[(fn.path, kind)] = per_fn_count.get((fn.path, kind), 0) + 1
        short = msg.split(" ")[0].rsplit("::", 1)[-1]
        extra = "%s:%s" % (kind, short)
        mm = re.search(r'"([^"]*)"', msg)
        if mm:
            extra += ":" + re.sub(r"[^A-Za-z0-9_.!()]+", "_", mm.group(1))[:60]
        if per_fn_count[(fn.path, kind)] > 1:
            # disambiguate repeated sites of one kind in one function by what they operate on, not by position
            if t["k"] == "call" and t["args"] and t["args"][0]["k"] in ("copy", "move"):
                src = prov.of_operand(fn, t["args"][0])
                extra += ":" + "|".join(origin_strs(src, 2))
            extra += "#%d" % per_fn_count[(fn.path, kind)]
        text = "panic site `%s` (%s) cannot fire under C07's precondition" % (msg[:70], kind)
        how = None
        # ---- generic discharges
        if kind == "assert":
            how = inv.const_assert(fn, b)
        elif kind == "borrow":
            if "LocalSpanStack" in t["arg_tys"][0]:
                n_borrow += 1
                r = inv.check_borrow_site(fn, b, rule)
                ok, res = r if isinstance(r, tuple) else (r, [])
                residual += [(fn.path, x) for x in res]
                if ok:
                    how = "thread-local RefCell; no user code and no nested borrow inside any live range (R2, R2b)"
                else:
                    how = "see R2/R2b obligation for this site"   # reported there, not twice
        elif kind == "unwrap":
            how = inv.guard_unwrap(fn, b)
        elif kind == "index":
            how = inv.guard_index(fn, b)
            if how is None and "RangeFrom" in (t["arg_tys"][1] if len(t["arg_tys"]) > 1 else ""):
                how = panics.slice_from_len(facts, prov, fn, b)
        elif kind == "vec-range":
            how = inv.full_range(fn, b)
        # ---- repository-specific discharges
        def is_handle_bound_assert():
            """debug_assert!(handle.index < self.span_queue.len()), recognised by what the failing edge tested (not by its text)"""
            if not msg.startswith("core::panicking::panic") or "assertion failed" not in msg:
                return False
            def bound(o):
                return any(v[0] == "binop" and v[1] in ("Lt", "Le", "Gt", "Ge") for v in o.via) and \
                    (any(v[0] == "call" and v[1].endswith("Vec::<T, A>::len") for v in o.via) or (o.kind == "param" and o.key == 2))
            e = bool_cond_edges(fn, prov, bound, False) | bool_cond_edges(fn, prov, bound, True)
            return bool(e) and any(fn.guarded([b], {x}) for x in e)
        if how is None and fn.path.startswith("fastrace::local::span_queue::SpanQueue::") and kind in ("index", "panic") \
                and (kind == "index" or "span_handle.index < self.span_queue.len()" in msg or is_handle_bound_assert()):
            if qh_ok:
                how = "invariant: " + qh_detail
        if how is None and kind == "panic" and c.ok() and fn.path == collector.HC:
            # debug assertions on scratch vectors / on the token of a submitted set
            guards = None
            for role in ("start", "drop", "commit", "submit", "stale"):
                def nonempty(o, role=role):
                    return o.kind == "param" and o.key == 1 and ("." + c.roles[role]) in o.path and \
                        any(v[0] == "call" and re.search(r"::is_empty$", v[1]) for v in o.via)
                e = bool_cond_edges(fn, prov, nonempty, False)
                if e and fn.guarded([b], e):
                    guards = role
            if guards:
                sub = ctx.__class__(ctx.prop, ctx.tier)
                sub._facts = ctx._facts
                collector.rule_scratch_emptied(sub, c, "R1")
                bad = [o for o in sub.obs if o["status"] == "violated" and o["key"].endswith("empty-" + guards)]
                if not bad:
                    how = "the `%s` scratch vector is emptied on every path of the previous cycle (C08-R1)" % c.roles[guards]
            else:
                def tok_empty(o):
                    return ".collect_token" in o.path and any(v[0] == "call" and re.search(r"::is_empty$", v[1]) for v in o.via)
                e = bool_cond_edges(fn, prov, tok_empty, True)
                if e and fn.guarded([b], e):
                    # choke point: SubmitSpans is only built in submit_spans under !is_empty
                    sub_ok = True
                    for g in facts.fns.values():
                        for bi, blk in enumerate(g.blocks):
                            for s in blk["stmts"]:
                                if s["k"] == "assign" and s["rv"]["k"] == "agg" and s["rv"].get("adt", "").endswith("command::SubmitSpans"):
                                    if not g.path.endswith("GlobalCollect::submit_spans"):
                                        sub_ok = False
                                    else:
                                        def empt(o):
                                            return any(v[0] == "call" and re.search(r"::is_empty$", v[1]) for v in o.via)
                                        ee = bool_cond_edges(g, prov, empt, False)
                                        sub_ok = sub_ok and bool(ee) and g.guarded([bi], ee)
                    if sub_ok:
                        how = "SubmitSpans is only constructed in GlobalCollect::submit_spans under !collect_token.is_empty() (C05-R2)"
        if how is None and kind == "unwrap" and fn.path.endswith("GlobalCollector::start::{closure#0}"):
            st = facts.fn(collector.GC + "::start")
            if st is not None:
                stores = [bb for bb, blk in enumerate(st.blocks) for s in blk["stmts"]
                          if s["k"] == "assign" and s["rv"]["k"] == "agg" and "Option" in s["rv"].get("adt", "")
                          and s["rv"].get("variant") == "Some" and "GlobalCollector" in s["rv"].get("adt_full", "")]
                spawns = st.calls_re(r"thread::(builder::)?Builder::spawn(_unchecked)?$", cleanup=False)
                if stores and spawns and all(any(st.dominates(s, sp) for s in stores) for sp in spawns):
                    how = "GLOBAL_COLLECTOR is set to Some(..) before the collector thread is spawned and is never reset"
        host = re.sub(r"(::\{closure#[^}]*\})+$", "", fn.path)       # an assertion moved into a closure of the same function is the same assertion
        if how is None and kind == "panic" and host.endswith("LocalSpanStack::with_properties") and "assert_failed" in msg:
            cs = panics.epoch_guarded_callers(facts, prov, host)
            if cs and all(ok for _, _, ok in cs):
                how = "every caller checks that the handle's epoch is the current scope's before calling"
            else:
                ctx.fail(rule, fn.path, fn.loc(b),
                         "the epoch debug assertion in LocalSpanStack::with_properties is unreachable with mismatching epochs",
                         "debug_assert_eq!(span_line_epoch, handle.epoch) is reachable from LocalSpan::with_properties called "
                         "while a later local-parent scope is open (let s = LocalSpan::enter_with_local_parent(..); let _g = "
                         "other.set_local_parent(); s.with_property(..)): no guard is released out of order, yet debug "
                         "builds panic. Unguarded call sites: %s" % [(g.path, g.loc(bb)) for g, bb, ok in cs if not ok],
                         extra="epoch-assert")
                continue
        if how is None:
            for rx, k, mrx, reason in panics.PRECONDITION:
                if re.search(rx, host) and k == kind and re.search(mrx, msg):
                    how = "precondition (guards released in reverse order): " + reason
        if how is None and kind == "unwrap":
            # environment table: what produced the Result being unwrapped
            src = prov.of_operand(fn, t["args"][0])
            vias = " ".join(v[1] for o in src for v in o.via if v[0] == "call")
            for frx, crx, prx, reason in panics.ENVIRONMENT:
                if re.search(frx, fn.path) and re.search(crx, t["callee"]) and re.search(prx, vias):
                    how = "environment/user: " + reason
        if how is not None:
            if how.startswith("see R2"):
                continue
            ctx.ok(rule, fn.path, fn.loc(b), text, how, extra=extra)
        else:
            ctx.fail(rule, fn.path, fn.loc(b), text,
                     "undischarged panic site %s at %s in %s: no guard dominates it, no invariant or precondition entry "
                     "covers it" % (msg[:90], fn.loc(b), fn.path), extra=extra)
    return inv, sites, residual, n_borrow


def check(ctx):
    ctx.explanation = (
        "Over everything reachable (call graph incl. closures, drop glue and thread-local initialisers) from the "
        "effective-public API of fastrace and fastrace-futures (config E, debug assertions on; thorough also Er): R1 "
        "every Assert terminator and every call of a known-panicking callee (unwrap/expect, Index, RefCell::borrow*, "
        "LocalKey::with, core::panicking::*, range-taking Vec ops, arithmetic operator traits) must be discharged by a "
        "dominating guard, a checked invariant (span-queue handles; slice-from-own-len; collector installed before "
        "spawn; scratch vectors emptied), the C07 precondition table (epoch/order assertions) or the environment table "
        "(thread spawn/join); R2 inside the live range of every RefMut<LocalSpanStack> no Fn*::call* on a "
        "type-parameter value runs (directly or through callees that invoke a passed closure); R2b no callee in a live "
        "range can re-borrow the stack; R3 no LocalKey::with, every try_with result is consumed without unwrap; R4 "
        "GLOBAL_COLLECTOR.lock() is reachable only from flush/set_reporter, SPSC_RXS.lock() only through the "
        "thread-local initialiser, the lock-order graph is acyclic, no user code under the SPSC_RXS guard; R5 no "
        "blocking callee is reachable from the tracing API other than flush, every loop on the send path dequeues, and no "
        "path retries after the ring reported Full.")
    ctx.not_decided = ("panics inside dependencies (allocation, fastant, rtrb, rand); re-entrancy through user Into/"
                       "IntoIterator impls evaluated under the borrow (listed as residual in the evidence); a reporter "
                       "that itself calls flush().")
    cfgs = ["E"] + (["Er"] if ctx.tier == "thorough" else [])
    for cfg in cfgs:
        facts = ctx.facts(cfg)
        suffix = "" if cfg == "E" else "-Er"
        inv, sites, residual, n_borrow = run_inventory(ctx, facts, cfg, rule="R1" + suffix)
        if cfg == "E":
            ctx.floor("R1", "fastrace", len(inv.roots), 100, "public API roots")
            ctx.floor("R1", "fastrace", len(inv.bodies), 150, "bodies reachable from the public API")
            ctx.floor("R1", "fastrace", len(sites), 30, "panic sites inventoried")
            ctx.floor("R2", "fastrace", n_borrow, 10, "borrow sites of the thread's span stack")
            ctx.analysed[cfg]["public_roots"] = len(inv.roots)
            ctx.analysed[cfg]["reachable_bodies"] = len(inv.bodies)
            ctx.analysed[cfg]["panic_sites"] = len(sites)
            ctx.analysed[cfg]["residual_user_trait_calls_under_borrow"] = sorted({"%s: %s" % (p, d) for p, (b, d) in residual})[:20]
            from .. import fixtures
            fixtures.panics_detectors(ctx, "R1")
            fixtures.borrow_detectors(ctx, "R2")
            fixtures.blocking_detector(ctx, "R5", BLOCK_RX)
            rule_tls(ctx, facts, inv)
            rule_locks(ctx, facts, inv)
            rule_blocking(ctx, facts, inv)


def rule_tls(ctx, facts, inv):
    prov = inv.prov
    n = 0
    bad_with = []
    for fn in facts.fns.values():
        if fn.crate not in panics.SCOPE_CRATES or panics.EXCLUDE_ROOTS.search(fn.path):
            continue
        for b in fn.calls_re(r"std::thread::local::LocalKey::<T>::(with|with_borrow|with_borrow_mut|set|get|take|replace)$", cleanup=False):
            bad_with.append((fn.path, fn.loc(b)))
        for b in fn.calls_re(r"std::thread::local::LocalKey::<T>::try_with$", cleanup=False):
            n += 1
            dest = fn.term(b)["dest"]["l"]
            # the locals the Result is moved through (`let r = KEY.try_with(..); r.ok()`); a Result nobody looks at
            # (`let _ = KEY.try_with(..)`) cannot be unwrapped either
            holders = {dest}
            grew = True
            while grew:
                grew = False
                for blk in fn.blocks:
                    for st in blk["stmts"]:
                        if st["k"] == "assign" and not st["lhs"]["p"] and st["rv"]["k"] == "use" and st["rv"]["op"]["k"] in ("move", "copy") \
                                and not st["rv"]["op"]["p"] and st["rv"]["op"]["l"] in holders and st["lhs"]["l"] not in holders and st["lhs"]["l"] != 0:
                            holders.add(st["lhs"]["l"])
                            grew = True
            users = []
            for cb in fn.calls():
                for a in fn.term(cb)["args"]:
                    if a["k"] in ("move", "copy") and root_local(fn, a)[0] in holders and not passes_downcast(fn, a):
                        users.append(fn.term(cb)["callee"])      # the Result itself, not the payload taken out of a matched Ok(..)
            returned = any(st["k"] == "assign" and st["lhs"]["l"] == 0 and st["rv"]["k"] == "use" and st["rv"]["op"]["k"] in ("move", "copy")
                           and st["rv"]["op"]["l"] in holders for blk in fn.blocks for st in blk["stmts"])
            if returned:
                users.append("(returned to the caller)")
            ok = all(re.search(r"Result::<T, E>::(ok|unwrap_or_default|unwrap_or_else|unwrap_or|map|is_ok|is_err|and_then|map_err)$", u)
                                                or re.search(r"Try>?::branch$|mem::drop$", u) for u in users)
            ctx.check(ok, "R3", fn.path, fn.loc(b),
                      "the result of LocalKey::try_with is consumed without unwrap (calls during thread teardown degrade to no-ops)",
                      "consumed by %s" % [u.rsplit("::", 1)[1] for u in users],
                      "try_with result flows into %s" % users, extra="try_with" if n else "try_with")
    ctx.check(not bad_with, "R3", "fastrace", "-", "library code never uses the panicking LocalKey::with family", "",
              "LocalKey::with-family calls at %s: panics when called from a thread-local destructor" % bad_with, extra="with")
    ctx.floor("R3", "fastrace", n, 9, "LocalKey::try_with call sites")


def lock_sites(facts, prov):
    out = []
    for fn in facts.fns.values():
        for b in fn.calls_re(LOCK_RX, cleanup=False):
            src = prov.of_operand(fn, fn.term(b)["args"][0])
            st = sorted({o.key for o in src if o.kind == "static"})
            out.append((fn, b, st[0].rsplit("::", 1)[1] if st else "?"))
    return out


def rule_locks(ctx, facts, inv):
    prov = inv.prov
    locks = [(fn, b, s) for fn, b, s in lock_sites(facts, prov) if fn.crate in panics.SCOPE_CRATES]
    ctx.floor("R4", "fastrace", len(locks), 4, "Mutex::lock call sites")
    tracing_roots = [r for r in inv.roots if not NONBLOCK_ROOT_EXCL.search(r)]
    par = facts.reachable(tracing_roots)
    # (a)
    bad = [(fn.path, fn.loc(b)) for fn, b, s in locks if s == "GLOBAL_COLLECTOR" and fn.path in par]
    ctx.check(not bad, "R4", "GLOBAL_COLLECTOR", "-",
              "GLOBAL_COLLECTOR.lock() is reachable from the public API only through flush() and set_reporter()",
              "%d tracing roots checked" % len(tracing_roots),
              "reachable from a tracing call: %s via %s" % (bad, [facts.path_to(par, p)[-3:] for p, _ in bad][:1]), extra="global")
    # (b)
    rx_sites = [(fn, b) for fn, b, s in locks if s == "SPSC_RXS" and fn.path in par]
    ok = all(fn.path.endswith("register_receiver") for fn, _ in rx_sites)
    via_tls = True
    for fn, b in rx_sites:
        chain = facts.path_to(par, fn.path)
        via_tls = via_tls and any("[tls" in x for x in chain)
    ctx.check(ok and via_tls, "R4", "SPSC_RXS", "-",
              "from tracing calls SPSC_RXS.lock() is reached only through the thread-local initialiser (once per thread)",
              "sites %s" % [fn.path for fn, _ in rx_sites], "sites %s, through tls init: %s" % ([fn.path for fn, _ in rx_sites], via_tls),
              extra="rxs")
    # (c) lock order
    order = set()
    for fn, b, s in locks:
        live, rel = inv.live_range(fn, b)
        for x in live:
            t = fn.term(x)
            if t["k"] != "call":
                continue
            targets = set()
            if re.search(LOCK_RX, t["callee"]):
                src = prov.of_operand(fn, t["args"][0])
                targets |= {o.key.rsplit("::", 1)[1] for o in src if o.kind == "static"}
            sub = facts.reachable([t["callee"]]) if t["callee"] in facts.fns else {}
            for g2, b2, s2 in locks:
                if g2.path in sub:
                    targets.add(s2)
            # closures handed over inside the live range
            for a in t["args"]:
                if a["k"] in ("copy", "move"):
                    cd = prov._closure_def(fn, a)
                    if cd:
                        sub2 = facts.reachable([cd[0].path])
                        for g2, b2, s2 in locks:
                            if g2.path in sub2:
                                targets.add(s2)
            for s2 in targets:
                order.add((s, s2))
    cyc = [(a, b) for (a, b) in order if (b, a) in order or a == b]
    ctx.check(not cyc, "R4", "locks", "-", "the lock-order graph (held -> acquired) is acyclic and has no self edge",
              "edges %s" % sorted(order), "cycle through %s" % cyc, extra="order")
    # (d) no user code under the registry lock
    for fn, b, s in locks:
        if s != "SPSC_RXS":
            continue
        live, rel = inv.live_range(fn, b)
        user = inv.inv.user_sites(fn, live)
        dyn = [x for x in live if fn.term(x)["k"] == "call" and fn.term(x)["ck"] in ("virtual", "unresolved")]
        # closures handed to std inside the range: their bodies must be free of dyn/unresolved calls too
        for x in live:
            t = fn.term(x)
            if t["k"] == "call":
                for a in t["args"]:
                    if a["k"] in ("copy", "move"):
                        cd = prov._closure_def(fn, a)
                        if cd:
                            sub = facts.reachable([cd[0].path])
                            for p in sub:
                                g = facts.fns.get(p)
                                if g is not None:
                                    dyn += [(p, y) for y in g.calls(lambda tt: tt["ck"] in ("virtual", "unresolved"))]
        ctx.check(not user and not dyn, "R4", fn.path, fn.loc(b),
                  "no user code (reporter, trait objects, caller closures) runs while the receiver registry is locked",
                  "", "user code under SPSC_RXS guard: %s %s" % (user, dyn[:3]), extra="rxs-user")


def rule_blocking(ctx, facts, inv):
    prov = inv.prov
    tracing_roots = [r for r in inv.roots if not NONBLOCK_ROOT_EXCL.search(r)]
    par = facts.reachable(tracing_roots)
    bad = []
    for p in par:
        fn = facts.fns.get(p)
        if fn is None or fn.crate not in panics.SCOPE_CRATES:
            continue
        for b in fn.calls_re(BLOCK_RX, cleanup=False):
            t = fn.term(b)
            if re.search(LOCK_RX, t["callee"]) and fn.path.endswith("register_receiver"):
                continue
            bad.append((fn.path, fn.loc(b), t["callee"]))
    ctx.check(not bad, "R5", "fastrace", "-",
              "no sleeping, parking, joining or lock-taking callee is reachable from a tracing call other than flush()",
              "%d bodies reachable from %d tracing roots" % (len([p for p in par if p in facts.fns]), len(tracing_roots)),
              "blocking call reachable: %s" % bad[:3], extra="blocking")
    # loops on the send path make progress
    field = spsc.overflow_field(facts)
    for name in ("send", "force_send"):
        fn = facts.fn("%s::<T>::%s" % (spsc.SENDER, name))
        if fn is None or field is None:
            ctx.fail("R5", spsc.SENDER + "::" + name, "-", "send path exists", "anchor lost", extra="loop-" + name)
            continue
        ops = spsc.classify_ops(fn, prov, field)
        deq = {b for b, role, _, _ in ops if role == "deq"}
        cyc_blocks = [b for b in range(len(fn.blocks)) if not fn.blocks[b]["cleanup"] and fn.on_cycle(b)]
        # every cycle passes a dequeue: removing the dequeue blocks leaves no cycle
        stuck = [b for b in cyc_blocks if b not in deq and b in fn.reach([d for d in fn.succs(b)], avoid_blocks=deq)]
        ctx.check(not stuck, "R5", fn.path, fn.span, "every loop iteration of %s dequeues one parked command (the loop cannot spin)" % name,
                  "cycle blocks %s, dequeue blocks %s" % (cyc_blocks, sorted(deq)), "cycle avoiding every dequeue through %s" % stuck, extra="loop-" + name)
        # a failed ring push ends the replay: retrying on a full ring would busy-wait for the collector
        retry = []
        for pb in spsc.ring_pushes(fn):
            for sb in spsc.result_switch(fn, pb):
                for a, d, _ in fn.variant_edges(sb, ["Err"]):
                    r = fn.reach([(a, d)])
                    if r & deq or pb in r:
                        retry.append((fn.loc(pb), sorted(r & deq)))
        ctx.check(not retry, "R5", fn.path, fn.span,
                  "%s never retries after the ring reported Full (it returns; the parked commands wait for a later call)" % name, "",
                  "after Err(Full) the loop dequeues/pushes again %s: with a full ring the call spins until the collector drains it"
                  % retry, extra="retry-" + name)
