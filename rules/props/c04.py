"""C04 -- cancel() suppresses the whole trace and nothing else."""
from .. import collector, spsc, spanrules


def check(ctx):
    ctx.explanation = (
        "MIR rules (config E): R1 Span::cancel reaches drop_collect only under inner=Some and collect_id=Some, and "
        "collect_id is Some only in Span::root's construction; R2 the Sender overflow list is FIFO, re-inserts go back "
        "to the dequeue end, and the new command is pushed to the ring only when nothing is parked (send, force_send); "
        "R3 the removal keyed by DropCollect.collect_id is guarded by Config.cancelable; R4 phase order "
        "Start<Drop<Commit; R5 the per-item fan-out loop has no exit other than exhaustion; R6 DropCollect goes "
        "through force_send_command and force_send never drops a value. R8 the collect id of a sampled root is the result of one fetch_add on the process-wide counter itself (never the reserved usize::MAX, never computed per thread); R9 only a StartCollect grows active_collectors (a late span cannot bring a cancelled trace back); R10 Config setters keep the other fields (cancelable survives report_interval()).")
    ctx.not_decided = ("suppression of children across arbitrary cross-queue interleavings; that nothing is delivered "
                       "'ever' is a history property.")
    facts = ctx.facts("E")
    c = collector.Collector(ctx, facts)
    spanrules.rule_cancel_roots_only(ctx, facts, "R1")
    spsc.rule_order(ctx, facts, "R2")
    from .. import fixtures
    fixtures.lifo_detector(ctx, "R2")
    if c.need("R3"):
        collector.rule_cancel_inert(ctx, c, "R3")
        collector.rule_phase_order(ctx, c, "R4", [("start", "drop"), ("drop", "commit")])
        collector.rule_other_containers_emptied(ctx, c, "R4")
        spanrules.rule_fanout(ctx, c, "R5")
    spanrules.rule_signals_forced(ctx, facts, "R6", kinds=("DropCollect",))
    spsc.rule_force_send_keeps(ctx, facts, "R6")
    spsc.rule_replay_keeps(ctx, facts, "R6")
    spsc.rule_sender_drop(ctx, facts, "R6")
    spsc.rule_parked_visible_to_collector(ctx, facts, "R7")
    from .. import provrules
    provrules.rule_not_sampled_sentinel(ctx, facts, "R8")
    provrules.rule_collect_ids(ctx, facts, "R8")     # two live traces never share a collect id: a cancel hits the trace it names only
    # a cancelled trace stays cancelled: nothing but a StartCollect creates an active collector (a late span must not bring one
    # back), and the cancelable switch survives the other Config setters
    if c.need("R9"):
        collector.rule_map_ops(ctx, c, "R9")
    provrules.rule_config(ctx, facts, "R10")
