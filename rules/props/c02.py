"""C02 -- delivered records reproduce the program's span tree."""
from .. import collector, provrules, spanrules


def check(ctx):
    ctx.explanation = (
        "Field provenance (flow-insensitive origins through copies, borrows, std combinators, crate-local getters and "
        "closures; config E) of every id-carrying construction: R1 each CollectTokenItem is either Span::root's "
        "(trace_id/parent_id/is_sampled from the SpanContext's trace_id/span_id/sampled, collect_id from start_collect or "
        "NOT_SAMPLED) or copies trace_id/collect_id/is_sampled from ONE source item with parent_id = the issuing span's own "
        "id (or the scope's next_parent_id falling back to the item's parent_id); R2 each SpanCollection takes trace_id "
        "and parent_id from the item whose collect_id keyed the dominating active-collector lookup; R3 SpanRecord: "
        "trace_id = parameter, span_id = RawSpan.id, parent_id = parameter exactly on the RawSpan.parent_id == default "
        "edge, and postprocess passes each collection's own pair; R4 SpanQueue start/finish keep next_parent_id (new "
        "span's parent <- next_parent_id, next <- new id; restore <- finished span's stored parent; nothing on the "
        "capacity edge); R5 the per-item fan-out loop exits only by exhaustion; R6 every use of issue_collect_token carries all items over "
        "(collect / flat_map; only SpanContext::from_span may read the first item), a scope re-issues its token item by item and no "
        "token is filtered or reordered before the submit choke point; R7 SpanId::next_id stores (prefix, counter + c) back with a "
        "non-zero constant c on every call, composes the id as (prefix << 32) | counter, draws the prefix at random per thread "
        "and falls back to a random id during thread-local teardown; R8 enter_with_parents answers with a no-op span only when the "
        "token collected from all parents is empty (never because of the first parent alone). R6 also: issue_collect_token / current_collect_token use no selecting or reordering adaptor.")
    ctx.explanation += (" R9 the delivery bundle: queues drained to their end with the registry filtered in place, closed = closed and empty, "
                        "stale sets kept unless cancelable, shared sets fanned out to every parent, one sampling filter at the choke point, a scope "
                        "records iff any parent is sampled, setting a local parent opens a scope, no-op only without a recording parent.")
    ctx.explanation += (' Round 5: R3 also -- no field that identifies or times a built SpanRecord is assigned after construction; R1 also -- in fastrace::span no consumer of issue_collect_token() selects among the items.')
    ctx.not_decided = ("uniqueness / non-zero of generated ids as values (collisions of random prefixes, counter wrap-around after 2^32 ids: value level); that the "
                       "tree is right for every nesting (the rules show each link is built from the right source, not "
                       "that the source holds the right runtime value).")
    facts = ctx.facts("E")
    provrules.rule_token_items(ctx, facts, "R1")
    provrules.rule_span_collections(ctx, facts, "R2")
    provrules.rule_span_records(ctx, facts, "R3")
    provrules.rule_record_fields_final(ctx, facts, "R3")
    provrules.rule_whole_token_inherited(ctx, facts, "R1")
    provrules.rule_scope_parent(ctx, facts, "R4")
    # "the span set as local parent": setting it always opens a scope of its own (else the enclosing scope's parent is used)
    from .. import scopes
    scopes.rule_scope_always_opened(ctx, facts, "R4")
    provrules.rule_id_generator(ctx, facts, "R7")
    provrules.rule_token_derivation_total(ctx, facts, "R6")
    provrules.rule_token_order_preserved(ctx, facts, "R6")
    c = collector.Collector(ctx, facts)
    if c.need("R5"):
        spanrules.rule_fanout(ctx, c, "R5")
    spanrules.rule_noop_only_without_parent(ctx, facts, "R8")
    # what delivery as such needs (see props/common.py)
    from .common import delivery_bundle
    delivery_bundle(ctx, ctx.facts("E"), "R9")
