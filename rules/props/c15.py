"""C15 -- #[trace] changes nothing but adds exactly one span per call."""
from .. import tracemacro


def check(ctx):
    ctx.explanation = (
        "The macro is syntax-directed: gen_block selects one of three templates (sync guard; in_span(async move {..}); "
        "enter_on_poll(async move {..})) x {awaited, boxed by async-trait} x name kind {default, short, named} x property "
        "kind {none, literal, formatted, escaped, mixed}. The corpus crate /verif/corpus/trace_shapes (generated; path-"
        "depends on /repo, compiled by the driver as configuration X) instantiates every legal combination over a set of "
        "body shapes (early return, ?, panic!, generics + where + lifetimes, &mut self method, impl Trait argument, "
        "reference return, borrowed async arguments, #[async_trait] impls), each next to an unannotated twin. Nothing is "
        "executed; the expanded, type-checked functions are compared: R1 signature/generics/bounds/asyncness equal the "
        "twin's; R2 the multiset of body calls (callee + constant arguments) equals the twin's and, for async, lies inside "
        "the inner block; R3 wrapper shape per template (one span-opening call dominating the body, guard live over every "
        "body call and released on every return and unwind path; one in_span/enter_on_poll around the inner block whose "
        "output is the result; no catch_unwind); R4 name: constant = configured / bare identifier, default = "
        "type_name_of(f) with f nested in the function that opens the span, `::f` sliced off; R5 properties: keys in "
        "order, literal values constant with braces unescaped, formatted values format!() over the arguments; R6 `properties` together with "
        "`enter_on_poll` does not compile, in either order of the arguments (compile-fail witnesses).")
    ctx.explanation += (' Round 5: two corpus shapes with async bodies that show no `.await` to the macro (none; awaited inside a macro) must still take the in_span template; R7 the LocalSpan guard leaves the span stack on every path of its Drop, also while unwinding.')
    ctx.not_decided = ("equality of return values and side-effect order for ALL bodies (semantic equivalence: the rules "
                       "show the body is embedded once, unmodified in its calls, in a wrapper that adds only drops at "
                       "scope end); drop order of unused by-value arguments (not claimed by the property); what is "
                       "delivered at run time (C01/C13).")
    facts = ctx.facts("X")
    tracemacro.check_all(ctx, facts)
    tracemacro.macro_inventory(ctx, ctx.facts("E"))
    # "over all signatures accepted by the macro": an argument combination whose template has nowhere to put the properties must
    # be rejected, whatever the order of the arguments (two compile-fail witnesses with compiling twins, asked of rustc itself)
    # the guard the sync template holds is a LocalSpan: it leaves the span stack on every path of its Drop, also when the annotated
    # function panics (otherwise the caller's later calls are recorded under the dead span: a difference the plain function has not)
    from .. import scopes
    scopes.rule_scope_pairing(ctx, ctx.facts("E"), "R7")
    from .. import witness
    witness.run(ctx, "R6", ["trace_props_then_poll", "trace_poll_then_props"])
