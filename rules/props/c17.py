"""C17 -- detached local spans attach identically wherever they are pushed."""
from .. import provrules


def check(ctx):
    ctx.explanation = (
        "MIR rules (config E): R1 SpanInner::push_child_spans submits the same Arc as SpanSet::SharedLocalSpans under a "
        "token issued by the receiving span and returns early only for an empty set; R2 to_span_records and every "
        "local-span arm of postprocess_span_collection convert with the same amend_local_span followed by the same "
        "mount_danglings, with (trace, parent) = (context.trace_id, context.span_id) resp. the collection's pair, and mount_danglings is handed only the records this collection has just produced (copies of "
        "one set in N traces carry the same span ids: a look-up over the whole batch gives the first copy everything); R3 an "
        "open span's end is LocalSpansInner.end_time exactly on the end_instant == Instant::ZERO edge, and end_time is "
        "Instant::now() taken after the scope is unregistered; R4 no Arc::get_mut/make_mut on the shared forest and no "
        "interior mutability in RawSpan / LocalSpansInner; R5 a set pushed to a parent whose trace has already been released is "
        "kept for the stale path on every routing branch unless cancelable (the same set pushed to N parents is delivered N times, "
        "also under the parents that finished earlier).")
    ctx.explanation += (" R6 the delivery bundle: queues drained to their end with the registry filtered in place, closed = closed and empty, "
                        "stale sets kept unless cancelable, shared sets fanned out to every parent, one sampling filter at the choke point, a scope "
                        "records iff any parent is sampled, setting a local parent opens a scope, no-op only without a recording parent.")
    ctx.explanation += (' Round 5: R2 also -- only mount_danglings appends events / properties to a finished record (to_span_records and a push share that one writer).')
    ctx.not_decided = "identity of the N delivered subtrees as values."
    facts = ctx.facts("E")
    provrules.rule_push_child(ctx, facts, "R1")
    provrules.rule_local_converters_agree(ctx, facts, "R2")
    from .. import collector
    c = collector.Collector(ctx, facts)
    if c.need("R2"):
        collector.rule_stale_isolated(ctx, c, "R2")
        collector.rule_danglings_arg(ctx, c, "R2")
        collector.rule_stale_kept(ctx, c, "R5")
    provrules.rule_mount_scope(ctx, facts, "R2")
    provrules.rule_record_attachments_only_mounted(ctx, facts, "R2")   # to_span_records and a push hand out the same records: one writer
    provrules.rule_open_spans(ctx, facts, "R3")
    provrules.rule_forest_immutable(ctx, facts, "R4")
    # what delivery as such needs (see props/common.py)
    from .common import delivery_bundle
    delivery_bundle(ctx, ctx.facts("E"), "R6")
