"""C13 -- future adapters scope spans to polls and completion."""
from .. import adapters

POLLS = {
    "<fastrace::future::InSpan<T> as core::future::future::Future>::poll": "span",
    "<fastrace::future::EnterOnPoll<T> as core::future::future::Future>::poll": "local",
}


def check(ctx):
    ctx.explanation = (
        "MIR rules over the two Future adapters of fastrace (config E): R1 the scope guard is created from the "
        "adapter's own span/name before the unresolved inner Future::poll call, that call lies in the guard's live "
        "range, and the guard is released on every return path and on the poll's unwind path; R2 Option<Span>::take "
        "of the adapter's span is guarded by the Poll::Ready edge, must be passed from it and is unreachable from "
        "Pending; R3 every non-cleanup drop of the taken span is reachable only through a release of the guard "
        "(Drop terminator or move into mem::drop); R4 the wrapped future is declared before the span (drop order); R5 "
        "Span::set_local_parent opens a scope on every path (also for a span whose trace is not sampled: the scope is what "
        "masks the thread's previous local parent during the poll); R6 what a poll attaches to the bound span waits for that span's "
        "record in the trace's own parked-attachments map (the span's record arrives only at completion, the attachments at "
        "the end of each poll); R7 a scope records iff any item of its token is sampled (a span with parents in a sampled "
        "and an unsampled trace is an effective local parent). R8 whatever register_span_line stores in the stack besides the new line is stored again on release (no cached flag outlives a nested scope); R9 every queue is read to its end in each cycle and a span set whose trace was released earlier is kept for the stale path on every routing branch (a future that moves between threads leaves its polls in several queues).")
    ctx.explanation += (" R10 the delivery bundle: queues drained to their end with the registry filtered in place, closed = closed and empty, "
                        "stale sets kept unless cancelable, shared sets fanned out to every parent, one sampling filter at the choke point, a scope "
                        "records iff any parent is sampled, setting a local parent opens a scope, no-op only without a recording parent.")
    ctx.explanation += (" R11 the scope bundle (C10's rules): scopes opened on every path and refused only when the stack is full, released "
                        "scopes popped with nothing left behind, the stack looked at from its top only and the only per-thread context.")
    ctx.not_decided = ("migration between threads, restoration of the previous context (C10), one local span per "
                       "poll as a count, delivery of what was recorded (C01/C03).")
    facts = ctx.facts("E")
    n = 0
    for path, kind in POLLS.items():
        fn = ctx.need_fn(facts, path, "R1")
        if fn is None:
            continue
        n += 1
        adapters.check_adapter(ctx, facts, fn, "", kind=kind)
    ctx.floor("R1", "fastrace::future", n, 2, "adapter poll methods")
    adapters.rule_drop_order(ctx, facts, "R4", "fastrace::future::InSpan")
    # "has that span as local parent during every poll" also for a span that is not sampled: the scope must be opened
    from .. import scopes
    scopes.rule_scope_always_opened(ctx, facts, "R5")
    from .. import collector, provrules
    c = collector.Collector(ctx, facts)
    if c.need("R6"):
        collector.rule_danglings_arg(ctx, c, "R6")
    provrules.rule_scope_sampling(ctx, facts, "R7")
    # "the thread's previous local context is restored after each poll" -- also when the scope just closed was one that did not record
    scopes.rule_scope_state_restored(ctx, facts, "R8")
    # a future that moves between threads leaves its polls' records in several queues: each is read to its end in every cycle, and a
    # span set that arrives after one of its traces was released is kept for the stale path on every routing branch
    if c.need("R9"):
        collector.rule_drain_keeps_live(ctx, c, "R9")
        collector.rule_stale_kept(ctx, c, "R9")
    # what delivery as such needs (see props/common.py)
    from .common import delivery_bundle
    delivery_bundle(ctx, ctx.facts("E"), "R10")
    # what "the local parent in effect" needs from the scope stack (see props/common.py)
    from .common import scope_bundle
    scope_bundle(ctx, ctx.facts("E"), "R11")
