"""C05 -- unsampled traces are never delivered and the decision propagates."""
from .. import provrules


def check(ctx):
    ctx.explanation = (
        "MIR rules (config E): R1 Span::root reaches start_collect only across the SpanContext.sampled == true edge and "
        "otherwise uses NOT_SAMPLED_COLLECT_ID; R2 SubmitSpans commands are constructed only in GlobalCollect::submit_spans, "
        "where the send is dominated by Vec::retain with a closure returning item.is_sampled and carries the filtered "
        "token; R3 SpanLine.is_sampled is an existential fold (Iterator::any / !all(!) / find().is_some()) over the token "
        "items' is_sampled, true without a token; R4 SpanLine::{start_span, add_event, add_properties, with_properties} "
        "reach the span queue and the caller's closure only across is_sampled == true; R5 is_sampled/trace_id are copied "
        "(never recomputed) into every derived CollectTokenItem and into the SpanContext built by from_span / "
        "current_local_parent; R6 set_local_parent on a recording span always opens a scope of its own (an unsampled span's "
        "scope shields the enclosing one); R7 enter_with_parents returns a no-op span only for an empty token (not for an unsampled one); R8 the "
        "scope stack is only looked at from its top (contexts come from the innermost scope).")
    ctx.explanation += (" R9 the scope bundle (C10's rules): scopes opened on every path and refused only when the stack is full, released "
                        "scopes popped with nothing left behind, the stack looked at from its top only and the only per-thread context.")
    ctx.explanation += (" Round 5: R7 also -- a child inherits the parent's whole token (no first()/next()/take on issue_collect_token() in fastrace::span).")
    ctx.not_decided = "absence of output for all programs (every path to the queue passes the filter; programs are not enumerated)."
    facts = ctx.facts("E")
    provrules.rule_root_sampling(ctx, facts, "R1")
    provrules.rule_token_items(ctx, facts, "R1", fields=("collect_id",))
    provrules.rule_choke_point(ctx, facts, "R2")
    provrules.rule_scope_sampling(ctx, facts, "R3")
    provrules.rule_scope_entries_check(ctx, facts, "R4")
    from .. import scopes
    scopes.rule_scope_always_opened(ctx, facts, "R6")
    provrules.rule_token_items(ctx, facts, "R5", fields=("trace_id", "is_sampled"))
    provrules.rule_context_copies(ctx, facts, "R5", fields=("trace_id", "sampled"))
    # the decision propagates: a child of an unsampled span is still a span of that trace (context, scope), never a no-op; and the
    # context of "the local parent" is the innermost scope's, whose decision may differ from an enclosing scope's
    from .. import spanrules
    spanrules.rule_noop_only_without_parent(ctx, facts, "R7")
    provrules.rule_whole_token_inherited(ctx, facts, "R7")
    scopes.rule_span_lines_innermost_only(ctx, facts, "R8")
    # what "the local parent in effect" needs from the scope stack (see props/common.py)
    from .common import scope_bundle
    scope_bundle(ctx, ctx.facts("E"), "R9")
