"""C20 -- Jaeger reporter sends every span once in packets below the UDP limit."""
from .. import jaeger


def check(ctx):
    ctx.explanation = (
        "MIR rules over JaegerReporter::try_report (config E): R1 the single send_to is guarded by the comparison of "
        "len(bytes) with the limit, normalised over {<,<=,>,>=} x edge polarity to 'len <= K on the sending edge' with "
        "K <= 7999, and the bytes are serialize(convert(window)); R2 every cycle through the loop header passes "
        "sent_spans += (1 | batch_size) or spans_per_batch /= c (c > 1 constant), the division only on the batch_size > 1 "
        "edge; R3 the converted window is spans[sent .. sent + batch_size] with batch_size = min(spans_per_batch, len - "
        "sent), the post-send increment is that same batch_size, and the skip increment is the constant 1 on the "
        "batch_size <= 1, over-limit edge; R4 the loop leaves only on !(sent_spans < len) or through `?`; R5 report() hands try_report "
        "the batch it received and applies no selecting operation (retain / dedup / truncate / drain / filter / take) to it.")
    ctx.not_decided = ("termination and the exactly-once / in-order claim as arithmetic facts over all size distributions "
                       "(R2-R3 are the per-iteration conditions a ranking argument needs; the argument itself is not "
                       "mechanised); that batch_size >= 1 whenever the loop condition holds.")
    facts = ctx.facts("E")
    jaeger.check_all(ctx, facts)
    jaeger.rule_fresh_buffer(ctx, facts, "R1")
    # R5: the batch report() was given reaches the splitting loop whole (a filter on the batch -- de-duplication by span id, a cap on
    # the number of records -- drops spans that fit in a datagram)
    from .. import reporters
    from ..core import Prov
    rep = [g for p, g in facts.fns.items() if g.crate == "fastrace_jaeger" and p.endswith("Reporter>::report")]
    tr = facts.fn("fastrace_jaeger::JaegerReporter::try_report")
    if rep and tr is not None:
        reporters.whole_batch(ctx, Prov(facts), "R5", rep[0], tr, "JaegerReporter", only=("report",))
    else:
        ctx.fail("R5", "fastrace_jaeger::JaegerReporter", "-", "report() and try_report() exist", "anchor lost", extra="whole-anchor")
