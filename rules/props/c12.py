"""C12 -- traceparent and id text codecs round-trip and never panic."""
from .. import codec


def check(ctx):
    ctx.explanation = (
        "Config E; format descriptors are read from the expanded AST (literal pieces, placeholder trait, width, fill, "
        "zero-pad) and argument types/origins from MIR: R1 every writer (encode_w3c_traceparent, Display and Serialize of "
        "TraceId/SpanId) formats each integer as zero-padded LowerHex whose width equals the maximum hex digit count of "
        "the formatted type (u128:32, u64:16, u8:2), fed from the right field; literals + widths of the traceparent sum "
        "to 55; R2 the reader splits on the writer's separator, requests exactly five fields, compares field 0 with the "
        "writer's version literal, parses fields 1-3 with from_str_radix::<same type>(_, 16), assigns them to trace_id / "
        "span_id / (flags & 1) == 1, and parses only when four fields are present and the fifth is absent; FromStr and "
        "Deserialize parse the type/radix Display writes; R3 every from_str_radix result flows only into ok()+`?` (decoder) "
        "or map/map_err (FromStr/Deserialize); R4 the eleven codec functions contain no Assert terminator and no "
        "panicking callee; R5 SpanContext::new and sampled() are field-wise (what the decoder builds is what was parsed); R6 each field "
        "reaches from_str_radix only past a test of its characters (from_str_radix accepts a leading '+'); R7 no test of a "
        "parsed value leads to a None result; R8 the serde impls of TraceId / SpanId write and read text for every "
        "Serializer / Deserializer (no second wire form behind is_human_readable()).")
    ctx.not_decided = ("the round-trip equation and the exact rejection set over all strings (value level: belongs to "
                       "symbolic or proof tools); behaviour of core's from_str_radix / fmt (trusted).")
    facts = ctx.facts("E")
    table = codec.rule_writers(ctx, facts, "R1")
    codec.rule_reader_agrees(ctx, facts, "R2", table or {})
    codec.rule_error_discipline(ctx, facts, "R3")
    codec.rule_no_panic_sites(ctx, facts, "R4")
    codec.rule_sign_rejected(ctx, facts, "R6")
    codec.rule_values_not_tested(ctx, facts, "R7")
    codec.rule_serde_text_only(ctx, facts, "R8")
    from .. import provrules
    provrules.rule_context_constructors(ctx, facts, "R5")
