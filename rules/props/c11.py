"""C11 -- extracted span contexts identify the right span."""
from .. import provrules


def check(ctx):
    ctx.explanation = (
        "Provenance rules (config E): R1 SpanContext::from_span: trace_id/sampled <- the span's first token item, span_id "
        "<- the span's own RawSpan.id; current_local_parent: trace_id/sampled/span_id <- the first item of the scope's "
        "current token (whose parent_id is the innermost open local span or the span set as local parent: C02-R1); R2 the "
        "item used is the first one (Iterator::next on a fresh iterator, slice::first or index 0) ; R3 partial steps leave "
        "through `?` (no unwrap, no unchecked index) so no-op spans, missing scopes and empty tokens give None; R4 "
        "Span::root copies trace_id/span_id/sampled of a context into the root token (closing the loop context -> remote "
        "child's parent); R5 the traceparent decoder never turns a parsed value into a None result (every id an "
        "extracted context can carry survives encode -> decode); R6 setting a span as local parent opens a scope on every path, "
        "also for a span of an unsampled trace (current_local_parent() must answer that span with sampled = false, not the "
        "enclosing scope's parent). R2 also: the two token derivations use no selecting / reordering iterator adaptor; R7 the scope stack is only accessed from its top (the innermost scope answers).")
    ctx.explanation += (" R8 the scope bundle (C10's rules): scopes opened on every path and refused only when the stack is full, released "
                        "scopes popped with nothing left behind, the stack looked at from its top only and the only per-thread context.")
    ctx.explanation += (' Round 5: R3 also -- SpanLine::current_collect_token returns None only behind the None edge of self.collect_token.')
    ctx.not_decided = ("that the delivered child record carries that parent for every program point (composition of "
                       "C02/C11 rules); the W3C text round trip is C12.")
    facts = ctx.facts("E")
    provrules.rule_context_copies(ctx, facts, "R1")
    provrules.rule_first_item(ctx, facts, "R2")
    provrules.rule_token_order_preserved(ctx, facts, "R2")
    provrules.rule_extraction_never_gives_up(ctx, facts, "R3")
    provrules.rule_token_answer_only_tokenless(ctx, facts, "R3")
    # extraction from inside a property closure: the closure must not run under the stack borrow (C07-R2)
    from .. import panics
    inv = panics.Inventory(ctx, facts)
    for fn in inv.bodies:
        for b in fn.calls_re(r"core::cell::RefCell::<T>::borrow_mut$", cleanup=False):
            if "LocalSpanStack" in fn.term(b)["arg_tys"][0]:
                inv.check_borrow_site(fn, b, "R3", rid_user="R3", rid_nested="R3b")
    provrules.rule_token_items(ctx, facts, "R4", fields=("trace_id", "parent_id", "is_sampled"))
    provrules.rule_context_constructors(ctx, facts, "R4")
    # the text round trip itself is C12; its one structural clause that C11 depends on: no value is refused by the decoder
    from .. import codec, scopes
    scopes.rule_scope_always_opened(ctx, facts, "R6")
    scopes.rule_span_lines_innermost_only(ctx, facts, "R7")
    codec.rule_values_not_tested(ctx, facts, "R5")
    # what "the local parent in effect" needs from the scope stack (see props/common.py)
    from .common import scope_bundle
    scope_bundle(ctx, ctx.facts("E"), "R8")
