"""C18 -- recorded times are consistent with execution."""
from .. import collector, provrules


def check(ctx):
    ctx.explanation = (
        "Provenance/CFG rules (config E): R1 in amend_span and amend_local_span begin_time_unix_ns <- begin_instant, "
        "duration_ns = end.saturating_sub(begin) with receiver <- end and argument <- begin, event timestamps <- "
        "begin_instant, every conversion uses the anchor parameter; R2 handle_commands creates one Anchor per cycle "
        "outside every loop and passes it to all releases, amend_* create none, to_span_records exactly one; R3 "
        "Span::drop stamps end_instant with Instant::now() before submitting, SpanQueue::finish_span stamps the indexed "
        "span, start_span/add_event/Span::new stamp begin with Instant::now(); R4 Span::elapsed returns "
        "begin_instant.elapsed() under inner = Some and None otherwise; R5 open spans end at the collection time "
        "(C17-R3); R6 a cloned RawSpan keeps its ids and both time stamps (a copy of a finished span stays finished); R3 also: finish_span stamps on every returning path; R7 every guard (LocalSpan, LocalParentGuard, LocalCollector) finishes its span / closes its scope on every path of its Drop.")
    ctx.explanation += (' Round 5: R8 the span bound to a future by in_span is finished at completion (taken on Poll::Ready), not when the finished adapter is dropped.')
    ctx.not_decided = ("nesting / non-overlap of intervals and window containment: consequences of the order in which "
                       "the Instant::now() calls execute (runtime).")
    facts = ctx.facts("E")
    provrules.rule_record_times(ctx, facts, "R1")
    c = collector.Collector(ctx, facts)
    if c.need("R2"):
        collector.rule_anchor(ctx, c, "R2")
    provrules.rule_stamps(ctx, facts, "R3")
    provrules.rule_elapsed(ctx, facts, "R4")
    from .c16 import rule_not_recording
    from ..core import Prov
    rule_not_recording(ctx, facts, Prov(facts))
    provrules.rule_open_spans(ctx, facts, "R5")
    provrules.rule_rawspan_copy_keeps_times(ctx, facts, "R6")
    # a duration ends where the guard is dropped: every guard finishes its span / closes its scope on every path (also while unwinding)
    from .. import scopes
    scopes.rule_scope_pairing(ctx, facts, "R7")
    # ... and the span bound to a future ends when the future completes, not when the finished adapter is dropped (C13's rule R2)
    from .. import adapters
    fnp = ctx.need_fn(facts, "<fastrace::future::InSpan<T> as core::future::future::Future>::poll", "R8")
    if fnp is not None:
        ctx.rekeyed(lambda sub: adapters.check_adapter(sub, facts, fnp, "", want_scope=False, want_order=False, kind="span"), {"R2": "R8", "R1": "R8", "R3": "R8"})
