"""C06 -- properties and events are delivered on the span they were attached to."""
from .. import collector, provrules


def check(ctx):
    ctx.explanation = (
        "MIR rules (config E): R1 Span::add_properties/add_event set raw_kind to Properties/Event before the submit, "
        "create the pseudo-span with enter_with_parent(_, self) and move the event's name/properties onto it; "
        "SpanQueue::{add_event, add_properties, start_span} record the right RawKind under next_parent_id; R2 amend_span "
        "and amend_local_span route Span -> record list, Event -> danglings[parent] as EventRecord{name, begin_instant, "
        "properties}, Properties -> danglings[parent] as Properties(span.properties), keyed by the pseudo-span's parent, "
        "and agree with each other; R3 mount_danglings removes by the record's own span_id and appends events to "
        "record.events / properties to record.properties; R4 the commit and sweep releases pass the trace's own "
        "ActiveCollector.danglings (attachments survive cycles); R5 a DropCollect discards parked attachments only when "
        "cancelable; R6 capture_local_spans opens a scope on every path, so local attachments made under an inner span "
        "cannot land on the enclosing one; R7 every (key, value) conversion closure keeps key and value in place; R8 the key attachments are parked under "
        "identifies one delivered record (known finding K3: the key is the span id alone while a span with two parents "
        "in one trace is delivered as two copies with that id). R3 also: nothing but mount_danglings appends to a record's events / properties, batches park into and mount from the trace's one table, by one call; R1 also: the handle's route (a pseudo-span of its own) is taken on every path; attachments are mounted once, after all collections of the call; R10 a scope records iff any item of its token is sampled.")
    ctx.explanation += (" R11 the delivery bundle: queues drained to their end with the registry filtered in place, closed = closed and empty, "
                        "stale sets kept unless cancelable, shared sets fanned out to every parent, one sampling filter at the choke point, a scope "
                        "records iff any parent is sampled, setting a local parent opens a scope, no-op only without a recording parent.")
    ctx.not_decided = ("'exactly once ... on no other', order across routes, arbitrary strings: values are moved, never "
                       "inspected (origins show only clone/to_vec/into), equality of contents is a runtime fact.")
    facts = ctx.facts("E")
    provrules.rule_pseudo_spans(ctx, facts, "R1")
    provrules.rule_attachments_are_new_entries(ctx, facts, "R1")
    provrules.rule_amend_routes(ctx, facts, "R2")
    provrules.rule_mount(ctx, facts, "R3")
    provrules.rule_mount_scope(ctx, facts, "R3")
    provrules.rule_mount_appends_only(ctx, facts, "R3")
    provrules.rule_record_attachments_only_mounted(ctx, facts, "R3")
    provrules.rule_pairs_keep_orientation(ctx, facts, "R7")
    provrules.rule_danglings_key_unique(ctx, facts, "R8")
    from .. import scopes
    scopes.rule_scope_always_opened(ctx, facts, "R6")
    c = collector.Collector(ctx, facts)
    if c.need("R4"):
        collector.rule_danglings_arg(ctx, c, "R4")
        collector.rule_stale_isolated(ctx, c, "R4")
        collector.rule_cancel_inert(ctx, c, "R5")
        # an attachment made through the handle on one thread and the span's finish on another travel in two queues: each
        # queue is read to its end in the cycle that reads it (a per-cycle cap lets the finish overtake the attachment)
        collector.rule_drain_keeps_live(ctx, c, "R9")
    # attachments made through the local parent of a span with parents in a sampled and an unsampled trace are recorded
    provrules.rule_scope_sampling(ctx, facts, "R10")
    # what delivery as such needs (see props/common.py)
    from .common import delivery_bundle
    delivery_bundle(ctx, ctx.facts("E"), "R11")
