"""C14 -- Stream and Sink adapters scope spans the same way."""
import re
from .. import adapters

METHODS = ["poll_next", "poll_ready", "start_send", "poll_flush", "poll_close"]


def check(ctx):
    ctx.explanation = (
        "The C13 rules R1-R3 applied to the five adapter methods of fastrace-futures (config E) with the finishing "
        "table poll_next: Ready(None) only; poll_close: Ready(_); poll_ready/start_send/poll_flush: never; R4 drop order of the adapter's fields; R5 Span::set_local_parent opens a "
        "scope on every path (C13-R5); R6 a scope records iff any item of its token is sampled (C13-R7). R7 a span set that arrives after one of its traces was released is kept for the stale path on every routing branch (C13-R9).")
    ctx.explanation += (" R8 the delivery bundle: queues drained to their end with the registry filtered in place, closed = closed and empty, "
                        "stale sets kept unless cancelable, shared sets fanned out to every parent, one sampling filter at the choke point, a scope "
                        "records iff any parent is sampled, setting a local parent opens a scope, no-op only without a recording parent.")
    ctx.explanation += (" R9 the scope bundle (C10's rules): scopes opened on every path and refused only when the stack is full, released "
                        "scopes popped with nothing left behind, the stack looked at from its top only and the only per-thread context.")
    ctx.explanation += (" Round 5: R10 every guard's Drop closes its scope / collects its spans on every path (also while unwinding).")
    ctx.not_decided = "polling from other threads, restoration of context (C10), delivery (C01/C03)."
    facts = ctx.facts("E")
    found = 0
    for m in METHODS:
        fns = [f for f in facts.fns.values()
               if f.crate == "fastrace_futures" and f.path.endswith("::" + m) and "InSpan<T>" in f.path]
        if len(fns) != 1:
            ctx.fail("R1", "fastrace_futures::InSpan::" + m, "-", "adapter method exists",
                     "anchor lost: %d bodies match" % len(fns), extra="anchor")
            continue
        found += 1
        adapters.check_adapter(ctx, facts, fns[0], "", kind="span")
    ctx.floor("R1", "fastrace_futures", found, 5, "adapter methods")
    adapters.rule_drop_order(ctx, facts, "R4", "fastrace_futures::InSpan")
    from .. import scopes
    scopes.rule_scope_always_opened(ctx, facts, "R5")
    from .. import provrules
    provrules.rule_scope_sampling(ctx, facts, "R6")
    from .. import collector
    c = collector.Collector(ctx, facts)
    if c.need("R7"):
        collector.rule_stale_kept(ctx, c, "R7")        # C13-R9: what the last call records is delivered also under a parent released earlier
    # what delivery as such needs (see props/common.py)
    from .common import delivery_bundle
    delivery_bundle(ctx, ctx.facts("E"), "R8")
    # what "the local parent in effect" needs from the scope stack (see props/common.py)
    from .common import scope_bundle
    scope_bundle(ctx, ctx.facts("E"), "R9")
    # what a call records reaches the collector when the call's guard is dropped -- on every path of the guard's Drop, also while the
    # thread is unwinding (a panicking last poll_next, a poll_close made from a destructor)
    scopes.rule_scope_pairing(ctx, ctx.facts("E"), "R10")
