"""C03 -- cancelable mode holds a trace until its root finishes, then delivers it whole."""
from .. import adapters, collector, spanrules


def check(ctx):
    ctx.explanation = (
        "MIR rules (config E): R1 every call of postprocess_span_collection in handle_commands is the commit loop (fed "
        "by the collector removed with a CommitCollect id), the active sweep (guarded by cancelable == false) or the "
        "stale sweep (whose vector is pushed only under cancelable == false); no other path builds records; R2 phases "
        "in dominance order Start<Drop, Start<Submit, Drop<Commit, Submit<Commit; R3 Span::drop submits before it "
        "commits; R4 one Reporter::report call per cycle, outside loops, fed by the single records vector; R5 the "
        "future/stream/sink adapters release the local-parent guard before finishing their span (C13-R3/C14-R3); R6 the "
        "receiver drain loops until try_recv reports an empty (or closed) channel, forwarding every command; R7 the "
        "per-item fan-out of a shared span set leaves only by exhaustion; R8 Config::cancelable(x) sets cancelable to x. R6 also: the receiver registry is filtered in place under its lock; R11 a scope records iff any item of its token is sampled.")
    ctx.explanation += (" R12 the delivery bundle: queues drained to their end with the registry filtered in place, closed = closed and empty, "
                        "stale sets kept unless cancelable, shared sets fanned out to every parent, one sampling filter at the choke point, a scope "
                        "records iff any parent is sampled, setting a local parent opens a scope, no-op only without a recording parent.")
    ctx.not_decided = ("inclusion of a child that finished on another thread before the root: receivers are drained "
                       "one after another, so the child's submit can be read one cycle after the root's commit "
                       "(limitation L1 of DESIGN.md; no code shape distinguishes the schedules).")
    facts = ctx.facts("E")
    c = collector.Collector(ctx, facts)
    if c.need("R1"):
        collector.rule_release_sites(ctx, c, "R1", what=("classify", "sweep_guard", "stale_guard"))
        collector.rule_phase_order(ctx, c, "R2", [("start", "drop"), ("start", "submit"), ("drop", "commit"), ("submit", "commit")])
        collector.rule_report(ctx, c, "R4", what=("once", "arg"))
        # a trace is whole only if every queue is drained to empty in the cycle that sees the commit, and a span set
        # shared with other traces reaches every one of them
        collector.rule_drain_keeps_live(ctx, c, "R6")
        collector.rule_registry_in_place(ctx, c, "R6")
        spanrules.rule_fanout(ctx, c, "R7")
    spanrules.rule_drop_order(ctx, facts, "R3")
    from .. import spsc
    # the root's CommitCollect is never lost: forced, parked on Full, and put back when a replay meets a full ring
    spanrules.rule_signals_forced(ctx, facts, "R9", kinds=("CommitCollect",))
    spsc.rule_force_send_keeps(ctx, facts, "R9")
    spsc.rule_replay_keeps(ctx, facts, "R9")
    from .. import provrules
    provrules.rule_config(ctx, facts, "R8")
    provrules.rule_not_sampled_sentinel(ctx, facts, "R10")
    # "local spans whose scope ended before it": a scope over a span with parents in a sampled and an unsampled trace records
    provrules.rule_scope_sampling(ctx, facts, "R11")
    # R5
    n = 0
    for f in facts.fns.values():
        if f.path.endswith("::poll") and "fastrace::future::InSpan<T>" in f.path and f.kind == "AssocFn":
            adapters.check_adapter(ctx, facts, f, "R5-", want_scope=False, want_finish=False, kind="span"); n += 1
        if f.crate == "fastrace_futures" and "InSpan<T>" in f.path and f.path.rsplit("::", 1)[1] in ("poll_next", "poll_close"):
            adapters.check_adapter(ctx, facts, f, "R5-", want_scope=False, want_finish=False, kind="span"); n += 1
    ctx.floor("R5", "adapters", n, 3, "adapter methods that finish a span")
    adapters.rule_drop_order(ctx, facts, "R5", "fastrace::future::InSpan")
    adapters.rule_drop_order(ctx, facts, "R5", "fastrace_futures::InSpan")
    # what delivery as such needs (see props/common.py)
    from .common import delivery_bundle
    delivery_bundle(ctx, ctx.facts("E"), "R12")
