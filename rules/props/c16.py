"""C16 -- disabled tracing is inert and lazy."""
import re

from .. import panics
from ..core import (Prov, bool_cond_edges, callee_is, discr_cond_edges, has_origin, origin_strs, root_local)
from ..invokes import Invokes, FN_CALL_RX, fn_bounded_params

EFFECTS = [
    (r"std::thread::(builder::)?Builder::spawn(_unchecked|_scoped)?$|std::thread::(functions::)?spawn$", "spawns a thread"),
    (r"global_collector::Reporter::report$", "calls a reporter"),
    (r"GlobalCollector::(start|handle_commands)$", "starts / runs the collector"),
    (r"global_collector::(send_command|force_send_command|register_receiver)$", "sends a collector command"),
    (r"lock_api::mutex::Mutex::<R, T>::lock$", "takes a lock"),
    (r"fastant::instant::Instant::now$", "reads the clock"),
    (r"core::cell::RefCell::<T>::borrow(_mut)?$", "borrows thread-local tracing state"),
]
FORBIDDEN_STATICS = re.compile(r"::(COMMAND_SENDER|LOCAL_SPAN_STACK|GLOBAL_COLLECTOR|SPSC_RXS)$")

LAZY_FNS = [
    "fastrace::span::Span::with_property", "fastrace::span::Span::with_properties",
    "fastrace::span::Span::add_property", "fastrace::span::Span::add_properties",
    "fastrace::local::local_span::LocalSpan::with_property", "fastrace::local::local_span::LocalSpan::with_properties",
    "fastrace::local::local_span::LocalSpan::add_property", "fastrace::local::local_span::LocalSpan::add_properties",
]
REC_TY = r"Option<(&(mut )?)?fastrace::(span::SpanInner|local::local_span::LocalSpanInner|local::local_span_line::SpanLine)>"
# a LocalSpan keeps its handle (inner = Some) after the scope it was started in has been released: for its own methods
# "recording" is a question to the thread's stack, not to the handle
REC_TY_LOCAL = r"Option<(&(mut )?)?fastrace::(span::SpanInner|local::local_span_line::SpanLine)>"


def recording_edges(fn, prov):
    """Edges a call must cross for the operation to be 'recording' in fn."""
    local = "::local_span::LocalSpan::" in fn.path
    e = set(discr_cond_edges(fn, prov, REC_TY_LOCAL if local else REC_TY, ["Some"]))
    e |= bool_cond_edges(fn, prov, lambda o: o.path and o.path[-1] == ".is_sampled", True, no_constant_way=True)
    # is_some()/is_none() forms of the same tests
    e |= bool_cond_edges(fn, prov, lambda o: any(v[0] == "call" and re.search(r"Option::<T>::is_some$", v[1]) for v in o.via)
                         and o.path and o.path[-1] in (".inner",), True) if not local else set()
    return e


class Lazy:
    def __init__(self, facts):
        self.facts = facts
        self.prov = Prov(facts, max_depth=6)      # the stack's answer is a chain of small predicates (stack -> line -> is_recording -> field)
        self.inv = Invokes(facts, self.prov)
        self.memo = {}

    def flows(self, fn, key):
        """Sites of fn at which the callable `key` (('param', i) | ('upvar', n)) is invoked or handed on.
        -> [(block, kind, callee_fn, callee_key)]"""
        out = []
        for b in fn.calls():
            if fn.blocks[b]["cleanup"]:
                continue
            t = fn.term(b)
            if t["ck"] in ("unresolved", "virtual") and FN_CALL_RX.search(t["decl"]):
                if t["args"] and key in self.inv._origin_keys(fn, t["args"][0]):
                    out.append((b, "direct", None, None))
                continue
            h = self.facts.fns.get(t["callee"])
            for j, a in enumerate(t["args"]):
                if a["k"] not in ("copy", "move"):
                    continue
                src, cf = self.inv._arg_sources(fn, a)
                if key not in src:
                    continue
                aty = fn.locals[a["l"]] if not a["p"] else ""
                base = re.sub(r"^&(mut )?", "", aty)
                if cf is None and base not in fn_bounded_params(fn) and not base.startswith("{closure@"):
                    continue        # a value computed from the callable (e.g. its result), not the callable itself
                if cf is not None:
                    # a closure built here that invokes `key` through one of its captures: it runs (at most) where it
                    # is handed over, so the analysis continues inside its body
                    agg = self.prov._closure_def(fn, a)[1]
                    runs_under = None
                    if h is not None and h.kind != "Closure":
                        if ("param", j + 1) not in self.inv.inv.get(h.path, ()):
                            continue            # the local callee never invokes it
                        runs_under = (h, ("param", j + 1))
                    for (kind, name) in self.inv.inv.get(cf.path, ()):
                        if kind != "upvar":
                            continue
                        for i, nme in enumerate(agg["fields"]):
                            if nme == name and key in self.inv._origin_keys(fn, agg["ops"][i]):
                                out.append((b, "closure", (cf, runs_under), ("upvar", name)))
                    continue
                if h is not None and h.kind != "Closure":
                    if ("param", j + 1) in self.inv.inv.get(h.path, ()):
                        out.append((b, "local", h, ("param", j + 1)))
                elif h is not None:
                    out.append((b, "direct", None, None))
                else:
                    out.append((b, "foreign", None, None))
        return out

    def unguarded(self, fn, key, depth=0):
        """Sites (with a call chain) at which `key` may be invoked without a recording check on the way."""
        mk = (fn.path, key)
        if mk in self.memo:
            return self.memo[mk]
        self.memo[mk] = []
        if depth > 6:
            return []
        rec = recording_edges(fn, self.prov)
        res = []
        for b, kind, h, hk in self.flows(fn, key):
            if rec and fn.guarded([b], rec):
                continue
            if kind == "local":
                sub = self.unguarded(h, hk, depth + 1)
                for chain in sub:
                    res.append(["%s bb%d (%s)" % (fn.path, b, fn.loc(b))] + chain)
            elif kind == "closure":
                cf, runs_under = h
                if runs_under is not None and not self.unguarded(runs_under[0], runs_under[1], depth + 1):
                    continue        # the local callee only runs the closure behind its own recording check
                sub = self.unguarded(cf, hk, depth + 1)
                for chain in sub:
                    res.append(["%s bb%d (%s)" % (fn.path, b, fn.loc(b))] + chain)
            else:
                res.append(["%s bb%d (%s) %s" % (fn.path, b, fn.loc(b), "invokes it" if kind == "direct" else "hands it to foreign code")])
        self.memo[mk] = res
        return res


def check(ctx):
    ctx.explanation = (
        "Config D (fastrace compiled without `enable`, via test-statically-disable): R1 from every effective-public "
        "function the call graph reaches no thread spawn, reporter call, collector start, command send, lock, clock "
        "read, RefCell borrow or access to COMMAND_SENDER/LOCAL_SPAN_STACK/GLOBAL_COLLECTOR/SPSC_RXS, and no public "
        "function invokes a caller-supplied closure (invokes fixpoint empty); R2 from_span/current_local_parent/elapsed "
        "assign only None to their return place and to_span_records returns Vec::new(). Config E: R3 for the eight "
        "property-taking methods of Span/LocalSpan no invocation of the closure parameter is reachable without crossing "
        "a recording check (Option<SpanInner|LocalSpanInner|&mut SpanLine> = Some, SpanLine.is_sampled = true -- for LocalSpan's own methods only the stack's answer counts, the handle outlives its scope --, matched "
        "on value origins so helper predicates count); R4 Span::root returns noop before a reporter is ready, "
        "enter_with_parent on a no-op parent, every Span::new call receives a token that cannot be empty, REPORTER_READY is "
        "stored true only after GlobalCollector::start and read un-negated; R5 'no local parent' is a state the stack really returns "
        "to: releasing a scope pops it on every path, and the six local operations act only across span_lines.last_mut() = Some.")
    ctx.explanation += (" R6 the scope bundle (C10's rules): scopes opened on every path and refused only when the stack is full, released "
                        "scopes popped with nothing left behind, the stack looked at from its top only and the only per-thread context. R7 library code opens no token-less (recording) scope: nothing "
                        "calls LocalCollector::start(), and only start() builds a LocalCollector from None.")
    ctx.not_decided = "thread count at run time; 'nothing is delivered' for all call sequences beyond reachability."
    # ------------------------------------------------------------------ config D
    D = ctx.facts("D")
    meta = D.meta.get("fastrace", {})
    ctx.check("feature=enable" not in " ".join(meta.get("cfg", [])) and bool(meta), "R1", "fastrace", "-",
              "configuration D really is fastrace without the `enable` feature", "cfg %s" % meta.get("cfg"),
              "cfg %s" % meta.get("cfg"), extra="cfg")
    ctx.check("test_statically_disable" in D.crates, "R2", "test_statically_disable", "-",
              "the repository's all-API call sequence type-checks against the disabled build", "", "crate missing", extra="tsd")
    roots = sorted(p for p, fn in D.fns.items() if fn.crate == "fastrace" and fn.j.get("reachable")
                   and not panics.EXCLUDE_ROOTS.search(p))
    ctx.floor("R1", "fastrace(D)", len(roots), 90, "public API functions in the disabled build")
    par = D.reachable(roots)
    inv = Invokes(D)
    n_eff = 0
    for p in sorted(par):
        fn = D.fns.get(p)
        if fn is None or fn.crate != "fastrace" or panics.EXCLUDE_ROOTS.search(p):
            continue
        for b in fn.calls():
            t = fn.term(b)
            for rx, what in EFFECTS:
                if callee_is(t, rx):
                    n_eff += 1
                    chain = D.path_to(par, p)
                    ctx.fail("R1", fn.path, fn.loc(b), "no tracing effect is reachable from the public API of the disabled build",
                             "%s (%s), reached through %s" % (what, t["callee"], " -> ".join(c.split("  <-")[0] for c in chain[-4:])),
                             extra="effect:" + t["callee"].rsplit("::", 1)[1])
        for blk in fn.blocks:
            for s in blk["stmts"]:
                if s["k"] != "assign":
                    continue
                rv = s["rv"]
                sts = [rv.get("static")] if rv["k"] == "tls" else []
                for o in (rv.get("ops", []) + [rv.get("op")] if rv["k"] in ("agg", "use", "cast") else []):
                    if o and o.get("static"):
                        sts.append(o["static"])
                for st in sts:
                    if st and FORBIDDEN_STATICS.search(st):
                        n_eff += 1
                        ctx.fail("R1", fn.path, s["span"], "tracing state is not touched in the disabled build",
                                 "accesses %s" % st, extra="static:" + st.rsplit("::", 1)[1])
    ctx.check(n_eff == 0, "R1", "fastrace(D)", "-",
              "no effectful callee or tracing static is reachable from %d public functions (%d bodies)" % (
                  len(roots), len([p for p in par if p in D.fns])), "", "%d effects found" % n_eff, extra="effects")
    n_cl = 0
    for p in roots:
        fn = D.fns[p]
        fb = fn_bounded_params(fn)
        if not fb:
            continue
        n_cl += 1
        keys = [k for k in inv.inv.get(p, ()) if inv.param_is_user(fn, k)]
        sites = inv.user_sites(fn, [b for b in range(len(fn.blocks)) if not fn.blocks[b]["cleanup"]])
        ctx.check(not keys and not sites, "R1", p, fn.span,
                  "the closure parameter of %s is never invoked in the disabled build" % p.rsplit("::", 1)[1], "",
                  "invokes %s at %s" % (keys, sites[:2]), extra="closure")
    ctx.floor("R1", "fastrace(D)", n_cl, 12, "public functions taking closures")
    for p, want in (("fastrace::collector::id::SpanContext::from_span", "None"),
                    ("fastrace::collector::id::SpanContext::current_local_parent", "None"),
                    ("fastrace::span::Span::elapsed", "None"),
                    ("fastrace::local::local_collector::LocalSpans::to_span_records", "empty")):
        fn = ctx.need_fn(D, p, "R2")
        if fn is None:
            continue
        feasible = fn.reach([0])          # a `match None { Some(..) => .., None => .. }` left by a cfg-gated helper has one live arm
        defs = [d for d in fn.defs(0) if d[0] in feasible]
        if want == "None":
            ok = bool(defs) and all((d[1] != "term" and d[2]["k"] == "assign" and d[2]["rv"]["k"] == "agg" and d[2]["rv"].get("variant") == "None")
                                    or (d[1] == "term" and re.search(r"option::Option<T> as core::ops::try_trait::FromResidual<.*>>::from_residual$", d[2]["callee"]))
                                    for d in defs)
        else:
            ok = bool(defs) and all(d[1] == "term" and re.search(r"alloc::vec::Vec::<T>::new$", d[2]["callee"]) for d in defs)
        ctx.check(ok, "R2", p, fn.span, "%s returns the constant %s in the disabled build" % (p.rsplit("::", 1)[1], want),
                  "%d assignment(s) to the return place" % len(defs), "return place defined by %s" % [
                      (d[2].get("callee") or d[2]["rv"]["k"]) for d in defs], extra="const")
    # ------------------------------------------------------------------ config E
    E = ctx.facts("E")
    lazy = Lazy(E)
    n = 0
    for p in LAZY_FNS:
        fn = ctx.need_fn(E, p, "R3")
        if fn is None:
            continue
        fb = fn_bounded_params(fn)
        params = [i for i in range(1, fn.arg_count + 1) if fn.locals[i] in fb]
        if not params:
            ctx.fail("R3", p, fn.span, "the method takes a closure", "anchor lost: no Fn-bounded parameter", extra="param")
            continue
        n += 1
        for i in params:
            inv_any = lazy.flows(fn, ("param", i))
            chains = lazy.unguarded(fn, ("param", i))
            ctx.check(bool(inv_any) and not chains, "R3", p, fn.span,
                      "the property closure is invoked only behind a recording check (never for no-op / unsampled / "
                      "scope-less targets)",
                      "%d hand-over site(s), all guarded on the way" % len(inv_any),
                      "unguarded invocation path: %s" % (" -> ".join(chains[0]) if chains else "closure never reaches an invocation"),
                      extra="lazy")
    ctx.floor("R3", "fastrace", n, 8, "property-taking methods")
    from .. import fixtures
    fixtures.lazy_detector(ctx, "R3", Lazy, recording_edges)
    rule_not_recording(ctx, E, lazy.prov)
    from .. import provrules
    provrules.rule_reporter_ready(ctx, E, "R4")
    # "local operations with no local parent" are inert only if no scope outlives its guard: a released scope is popped
    # on every path, and the handle leaves its guard only in Drop (C10-R2)
    from .. import scopes
    scopes.rule_unregister_always_pops(ctx, E, "R5")
    scopes.rule_inert_without_scope(ctx, E, "R5")
    # what "the local parent in effect" needs from the scope stack (see props/common.py)
    from .common import scope_bundle
    scope_bundle(ctx, ctx.facts("E"), "R6")
    # R7: a scope without a collect token is a *recording* scope (it is what LocalCollector::start() hands to a caller who wants the
    # spans back). The library opens one for nobody but that caller: no library code calls LocalCollector::start(), and only start()
    # builds a LocalCollector from `None`. (A tokenless scope opened around the poll of a future bound to a no-op span makes every
    # local operation inside it record and run its property closures, with nobody to receive them.)
    Ef = ctx.facts("E")
    bad, n_new = [], 0
    for p_, g in Ef.fns.items():
        if g.crate not in ("fastrace", "fastrace_futures"):
            continue
        for b in g.calls_re(r"local::local_collector::LocalCollector::(start|new)$", cleanup=False):
            t = g.term(b)
            if t["callee"].endswith("::start"):
                bad.append((p_, g.loc(b), "LocalCollector::start()"))
                continue
            n_new += 1
            a0 = t["args"][0] if t["args"] else None
            is_none = False
            if a0 is not None and a0["k"] in ("copy", "move") and not a0["p"]:
                sd = g.single_def(a0["l"])
                is_none = bool(sd) and sd[1] != "term" and sd[2]["k"] == "assign" and sd[2]["rv"]["k"] == "agg" and sd[2]["rv"].get("variant") == "None"
            elif a0 is not None and a0["k"] == "const":
                is_none = "None" in str(a0.get("v", a0.get("text", "")))
            if is_none and not re.search(r"LocalCollector::start(::\{closure#\d+\})*$", p_):
                bad.append((p_, g.loc(b), "LocalCollector::new(None, ..)"))
    ctx.check(not bad and n_new >= 2, "R7", "fastrace::local::local_collector::LocalCollector", "-",
              "the library opens no token-less (recording) scope of its own: nothing calls LocalCollector::start(), only start() builds a collector from None",
              "%d LocalCollector::new sites" % n_new, "token-less scopes opened by library code: %s (new sites found: %d)" % (bad, n_new), extra="tokenless")


def rule_not_recording(ctx, E, prov):
    root = ctx.need_fn(E, "fastrace::span::Span::root", "R4")
    if root is not None:
        from ..spanrules import span_builds
        rb = [(g, b) for g, b, f in span_builds(E) if g.path == root.path]
        if rb:
            root = rb[0][0]                      # the view with the private constructor looked through
        news = [b for _, b in rb]
        ready_true = bool_cond_edges(root, prov, lambda o: any(
            v[0] == "call" and v[1].endswith("global_collector::reporter_ready") for v in o.via), True)
        ctx.check(bool(news) and bool(ready_true) and root.guarded(news, ready_true), "R4", root.path, root.span,
                  "Span::root builds a recording span only when reporter_ready() is true", "",
                  "Span::new in Span::root is reachable with reporter_ready() == false", extra="ready")
        starts = root.calls_re(r"GlobalCollect::start_collect$", cleanup=False)
        ctx.check(root.guarded(starts, ready_true), "R4", root.path, root.span,
                  "no collection is started before a reporter is installed", "", "start_collect reachable before reporter_ready", extra="start")
    ewp = ctx.need_fn(E, "fastrace::span::Span::enter_with_parent", "R4")
    if ewp is not None:
        some = set(discr_cond_edges(ewp, prov, r"Option<fastrace::span::SpanInner>", ["Some"]))
        # also accepted: a test on a value derived from parent.inner (e.g. inner.as_ref().and_then(..))
        for sb in range(len(ewp.blocks)):
            info = ewp.switch_info(sb)
            if info and info.get("kind") == "discr" and "Option<" in info["ty"] and not ewp.blocks[sb]["cleanup"]:
                src = prov.of_place(ewp, info["place"])
                if any(o.kind == "param" and o.key == 2 and ".inner" in o.path for o in src):
                    some |= set(ewp.variant_edges(sb, ["Some"]))
        # (delegating to enter_with_parents is not a creation of its own: that function answers with a no-op span for an empty token,
        # which is what the token obligation below and C02-R8 check)
        calls = [b for b in ewp.calls(lambda t: t["callee"].startswith("fastrace::span::Span::") and not t["callee"].endswith("::noop")
                                      and not t["callee"].endswith("::enter_with_parents"))
                 if not ewp.blocks[b]["cleanup"]]
        ctx.check((bool(some) and ewp.guarded(calls, some)) or not calls, "R4", ewp.path, ewp.span,
                  "enter_with_parent derives a span only from a recording parent (inner = Some)", "",
                  "span creation reachable with a no-op parent", extra="parent")
    n = 0
    from ..spanrules import span_builds
    for g, b, f in span_builds(E):
        if "collect_token" not in f:
            continue
        n += 1
        tok = f["collect_token"]
        src = prov.of_operand(g, tok)
        calls = [v[1] for o in src for v in o.via if v[0] == "call"]
        singleton = any(re.search(r"convert::(Into|From)(<.*>)?>?::(into|from)$", v[1]) and v[2] < len(g.blocks) and
                        g.blocks[v[2]]["term"].get("arg_tys", [""])[0] == "fastrace::collector::CollectTokenItem" for o in src for v in o.via if v[0] == "call")
        from_scope = any(c.endswith("LocalSpanStack::current_collect_token") for c in calls)
        nonempty = bool_cond_edges(g, prov, lambda o: any(v[0] == "call" and re.search(r"::is_empty$", v[1]) for v in o.via), False)
        guarded = bool(nonempty) and g.guarded([b], nonempty)
        why = "singleton token (From<CollectTokenItem>)" if singleton else \
            "token issued by an open scope, whose stored token was issued by a recording span" if from_scope else \
            "guarded by !token.is_empty()" if guarded else None
        ctx.check(why is not None, "R4", g.path, g.loc(b),
                  "a recording span is built from a collect token that cannot be empty (a span without a trace must be a no-op span)",
                  why or "",
                  "the token a span is built from can be empty (origins %s): with only no-op parents a recording span is "
                  "built whose property closures run, whose elapsed() is Some and whose local parent has no token item"
                  % origin_strs(src, 4), extra="token")
    ctx.floor("R4", "fastrace::span::SpanInner", n, 3, "places where a recording span is built")
    # scope tokens come from recording spans only
    lc_new = [(g, b) for g in E.fns.values() for b in g.calls_re(r"LocalCollector::new$", cleanup=False)]
    for g, b in lc_new:
        src = prov.of_operand(g, g.term(b)["args"][0])
        none = all(o.kind == "agg" and str(o.key).endswith("Option::None") for o in src)
        from_span = any(v[0] == "call" and v[1].endswith("SpanInner::issue_collect_token") for o in src for v in o.via)
        ctx.check(none or from_span, "R4", g.path, g.loc(b),
                  "a scope's token is None (bare LocalCollector) or issued by a recording span", "",
                  "origins %s" % origin_strs(src), extra="scope-token")
