"""C01 -- every finished span of a sampled trace is delivered exactly once."""
from .. import collector, spsc, spanrules, typerules


def check(ctx):
    ctx.explanation = (
        "MIR rules (config E), each a necessary condition of delivery in the default configuration: R1 Span::drop and "
        "LocalParentGuard::drop must pass GlobalCollect::submit_spans from their Some edges, and submit_spans skips the "
        "send only when the filtered token is empty; R2 CommitCollect/DropCollect constructions flow only into "
        "force_send_command, which must pass Sender::force_send, which parks the value on every Full edge; R3 try_recv "
        "re-pops after is_abandoned() before Err(ChannelClosed); R4 Sender<T>: Drop flushes the overflow list oldest "
        "first into the ring; R5 the receiver drain returns false only on Err, true only on Ok(None), and forwards every "
        "command kind, and the registry is only pushed to / retained in place under its lock (never taken, replaced or cleared); R6 a submit without an active collector goes to the stale list unless cancelable, the active "
        "sweep exists under cancelable=false, the stale list is released, and Reporter::report is reached on every "
        "path with the vector all releases wrote to; R7 span sets and commands are not Clone and are moved/drained "
        "(at most once); R8 the collector thread loops over handle_commands with a sleep fed by report_interval, and "
        "flush() runs one cycle on a joined thread; R9 Config::default() is the non-cancelable configuration and the builder "
        "methods set exactly the field they name.")
    ctx.explanation += (" R10 the delivery bundle: queues drained to their end with the registry filtered in place, closed = closed and empty, "
                        "stale sets kept unless cancelable, shared sets fanned out to every parent, one sampling filter at the choke point, a scope "
                        "records iff any parent is sampled, setting a local parent opens a scope, no-op only without a recording parent.")
    ctx.explanation += (' Round 5: R2 also -- GlobalCollect::commit_collect sends its CommitCollect on every path.')
    ctx.not_decided = ("delivery for every interleaving of producer pushes with the sequential drain; the 'about one "
                       "report interval' latency; memory ordering inside rtrb; loss when the ring is full (C09).")
    facts = ctx.facts("E")
    c = collector.Collector(ctx, facts)
    spanrules.rule_finish_submits(ctx, facts, "R1")
    spanrules.rule_signals_forced(ctx, facts, "R2")
    spsc.rule_force_send_keeps(ctx, facts, "R2")
    spsc.rule_replay_keeps(ctx, facts, "R2")
    spsc.rule_try_recv(ctx, facts, "R3")
    spsc.rule_sender_drop(ctx, facts, "R4")
    if c.need("R5"):
        collector.rule_drain_keeps_live(ctx, c, "R5")
        collector.rule_registry_in_place(ctx, c, "R5")
        collector.rule_stale_kept(ctx, c, "R6")
        collector.rule_release_sites(ctx, c, "R6", what=("sweep_exists", "stale_exists"))
        collector.rule_report(ctx, c, "R6", what=("reached", "arg"))
    typerules.rule_not_clone(ctx, facts, "R7")
    from .. import provrules
    provrules.rule_config(ctx, facts, "R9")
    if c.need("R8"):
        collector.rule_cycle_exists(ctx, c, "R8")
    # what delivery as such needs (see props/common.py)
    from .common import delivery_bundle
    delivery_bundle(ctx, ctx.facts("E"), "R10")
