"""C19 -- bundled reporters transmit records faithfully."""
from .. import reporters


def check(ctx):
    ctx.explanation = (
        "Config E, per reporter a FIELD table checked by provenance inside the convert closures and a WIRE table checked "
        "against the published schema (frozen in rules/reporters.py with its source): R1 Jaeger: trace_id_low/high "
        "(high with Shr 64), span_id, parent_span_id, operation_name, start_time and duration (each Div 1000), tags <- "
        "properties (key .0, value .1), logs <- events (timestamp Div 1000, fields = name then properties); R2 Jaeger "
        "wire: Field::new ids of Span (1-11) and Tag (1-7, value id per variant), tuple positions of Log/SpanRef/Process/"
        "Batch, oneway `emitBatch`, compact protocol; R3 Datadog: ids, name, start, duration with no arithmetic, meta <- "
        "properties; R4 Datadog wire: serialize_field names paired with the struct field of that meaning, required v0.4 "
        "keys present, 0x91 prefix, with_struct_map; R5 OpenTelemetry: SpanContext::new(trace_id, span_id), "
        "parent_span_id, name, start_time, end_time = begin + duration, attributes <- properties, events <- "
        "map_events(events) with Event::new(name, timestamp, properties); R6 each convert is iter -> map -> collect with "
        "no selective adaptor, report() -> try_report() -> convert -> send with is_empty() the only early exit; R7a-R7d the Jaeger send loop "
        "(the C20 rules, as the 'each record is transmitted exactly once' clause for Jaeger: a datagram is sent only below the limit, so the "
        "socket cannot refuse it and abort the rest of the batch; a span is skipped only when it alone exceeds the limit). R5 also: every attribute value reaches KeyValue::new as text (no parsing into typed values).")
    ctx.not_decided = ("well-formedness of the bytes beyond ids/names/positions (the codec crates' behaviour), UTF-8 and "
                       "top-bit values, begin + duration overflow in the OpenTelemetry path (value level).")
    facts = ctx.facts("E")
    reporters.jaeger(ctx, facts, "R1", "R2")
    reporters.datadog(ctx, facts, "R3", "R4")
    reporters.otel(ctx, facts, "R5")
    reporters.once_each(ctx, facts, "R6")
    from .. import jaeger
    jaeger.rule_fresh_buffer(ctx, facts, "R6")
    ctx.rekeyed(lambda sub: jaeger.check_all(sub, facts), {"R1": "R7a", "R2": "R7b", "R3": "R7c", "R4": "R7d"})
