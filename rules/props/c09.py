"""C09 -- overload degrades by omission only."""
from .. import scopes, spanrules, spsc, panics
from .c07 import rule_blocking


def check(ctx):
    ctx.explanation = (
        "MIR rules (config E): R1 every push onto SpanQueue.span_queue (three sites) and onto LocalSpanStack.span_lines is "
        "guarded by len < capacity; on the refusing edge the function returns without touching next_parent_id / the epoch "
        "counter, and nothing else grows those containers; R2 send_command uses Sender::send at one site and its Result "
        "flows only into ok(); nobody unwraps a ChannelFull; no blocking callee is reachable from a tracing call and the "
        "replay loops dequeue on every iteration; R3 CommitCollect/DropCollect are force-sent, force_send parks on every "
        "Full edge, the overflow list is FIFO with no overtaking, and Sender::drop flushes it oldest first; R4 StartCollect "
        "and SubmitSpans use the droppable path; R5 the three capacities are positive compile-time constants (reported); R6 a root whose StartCollect was lost still "
        "has its later span sets delivered (stale path); R7 a scope refused at the scope limit leaves a trace in the stack's "
        "state (known finding K4: it does not, so spans recorded under the refused parent are delivered under the enclosing one); R8 the "
        "sampling flag of every token item is copied from its source (a root's from its SpanContext): it never depends on whether "
        "a command could be queued; R9 only mount_danglings appends events / properties to a finished record, keyed by the id they were "
        "attached under (leftovers of a span that was lost are not adopted by another record).")
    ctx.not_decided = "correctness of what is delivered during an episode and recovery after the queue drains (runtime)."
    facts = ctx.facts("E")
    scopes.rule_bounded_writes(ctx, facts, "R1")
    scopes.rule_send_ignores_full(ctx, facts, "R2")
    inv = panics.Inventory(ctx, facts, "E")
    rule_blocking_as(ctx, facts, inv)
    other = spanrules.rule_signals_forced(ctx, facts, "R3")
    spsc.rule_force_send_keeps(ctx, facts, "R3")
    spsc.rule_order(ctx, facts, "R3")
    spsc.rule_replay_keeps(ctx, facts, "R3")
    spsc.rule_sender_drop(ctx, facts, "R3")
    scopes.rule_start_droppable(ctx, facts, "R4", other or {})
    from .. import collector
    c = collector.Collector(ctx, facts)
    if c.need("R6"):
        # a root created while the queue was full loses only its StartCollect: its later span sets must still be delivered
        collector.rule_stale_kept(ctx, c, "R6")
    # "every record that is delivered is still correct": a scope refused at the scope limit must not hand its local
    # operations to the enclosing scope (known finding K4)
    scopes.rule_refused_scope_masks(ctx, facts, "R7")
    # "the only effect is that span sets submitted while it was full may be missing": whether a trace is sampled must not
    # depend on the outcome of a send (a root that turns unsampled when its StartCollect is refused loses the whole trace)
    from .. import provrules
    provrules.rule_token_items(ctx, facts, "R8", fields=("is_sampled",))
    # ... and what an overload leaves without its span (attachments whose target's set was refused) is dropped with the trace, not
    # handed to another record
    provrules.rule_record_attachments_only_mounted(ctx, facts, "R9")
    caps = scopes.rule_capacities(ctx, facts, "R5")
    ctx.analysed.setdefault("E", {})["capacities"] = caps


def rule_blocking_as(ctx, facts, inv):
    # C07-R5 re-keyed under C09-R2
    sub = ctx.__class__(ctx.prop, ctx.tier)
    sub._facts = ctx._facts
    rule_blocking(sub, facts, inv)
    for o in sub.obs:
        o["id"] = o["id"].replace("-R5", "-R2")
        o["key"] = o["key"].replace("-R5@", "-R2@")
        ctx.obs.append(o)
