"""C12: traceparent / id text codecs -- writer/reader tables agree; fixed widths; error discipline."""
import re

from .core import Prov, bool_cond_edges, discr_cond_edges, has_origin, origin_strs, root_local, result_switches, const_value, passes_downcast
from . import panics

ID = "fastrace::collector::id::"
BITS = {"u8": 8, "u16": 16, "u32": 32, "u64": 64, "u128": 128}


def fmt_of(facts, impl_label, fn_name):
    out = [f for f in facts.formats if f["crate"] == "fastrace" and len(f["item"]) >= 2
           and f["item"][-1] == fn_name and f["item"][-2] == impl_label]
    return out


def norm_piece(p):
    if "lit" in p:
        return ("lit", p["lit"])
    zero = p["zero_pad"] or (p["fill"] == "0" and p["align"] == "Right")
    width = p["width"] if isinstance(p["width"], int) else None
    return ("ph", p["trait"], width, bool(zero), p["arg"], p["precision"], p["alternate"], p["sign"])


def hex_arg_types(fn):
    """Types formatted in fn, in call order: Argument::new_lower_hex::<T> (and new_display::<T> for ids that are written
    through their own Display impl) -> [(block, type, 'LowerHex'|'Display')]."""
    out = []
    for b in sorted(fn.calls_re(r"fmt::rt::Argument::(<'_>::)?new_(lower_hex|display)$", cleanup=False)):
        t = fn.term(b)
        ty = t["targs"][-1] if t.get("targs") else "?"
        out.append((b, ty.lstrip("&"), "LowerHex" if t["callee"].endswith("lower_hex") else "Display"))
    return out


def rule_writers(ctx, facts, rule):
    prov = Prov(facts)
    DISPLAY = {"fastrace::collector::id::TraceId": "<fastrace::collector::id::TraceId as core::fmt::Display>::fmt",
               "fastrace::collector::id::SpanId": "<fastrace::collector::id::SpanId as core::fmt::Display>::fmt"}
    specs = [
        ("impl fmt::Display for TraceId", "fmt", DISPLAY["fastrace::collector::id::TraceId"], [("u128", (".0",))]),
        ("impl fmt::Display for SpanId", "fmt", DISPLAY["fastrace::collector::id::SpanId"], [("u64", (".0",))]),
        ("impl SpanContext", "encode_w3c_traceparent", ID + "SpanContext::encode_w3c_traceparent",
         [("u128", (".trace_id", ".0")), ("u64", (".span_id", ".0")), ("u8", (".sampled",))]),
        ("impl serde::Serialize for TraceId", "serialize", "<fastrace::collector::id::TraceId as serde::ser::Serialize>::serialize", [("u128", (".0",))]),
        ("impl serde::Serialize for SpanId", "serialize", "<fastrace::collector::id::SpanId as serde::ser::Serialize>::serialize", [("u64", (".0",))]),
    ]
    table = {}
    good_display = set()
    for label, fname, path, args in specs:
        fms = fmt_of(facts, label, fname)
        fn = ctx.need_fn(facts, path, rule)
        if fn is None:
            continue
        if not fms:
            # the format string moved into a helper that the normal form has inlined here: the invocation is found by the source
            # position of the fmt::Arguments construction
            at = {fn.term(b).get("span") for b in fn.calls_re(r"core::fmt::Arguments::<'a>::new\w*$", cleanup=False)}
            fms = [f for f in facts.formats if f["crate"] == "fastrace" and f.get("span") in at]
        if not fms and fname == "serialize":
            # written through the type's own Display: `serializer.serialize_str(&self.to_string())`
            self_ty = path.split(" as ")[0].lstrip("<")
            ts = [b for b in fn.calls_re(r"string::ToString>?::to_string$|fmt::Display>?::fmt$", cleanup=False)]
            whole = bool(ts) and all(any(o.kind == "param" and o.key == 1 and not [q for q in o.path if q != "*"] for o in prov.of_operand(fn, fn.term(b)["args"][0])) for b in ts)
            ok = whole and DISPLAY.get(self_ty) in good_display
            if DISPLAY.get(self_ty) in table:
                table[path] = table[DISPLAY[self_ty]]
            ctx.check(ok, rule, path, fn.span, "%s writes every id as zero-padded lowercase hex whose width equals the maximum digit count of the "
                      "formatted integer type (fixed length for all values)" % fname, "through the type's Display impl (self.to_string())",
                      "no format string of its own and no whole-value to_string() on a checked Display impl", extra="fixed")
            continue
        if len(fms) != 1:
            ctx.fail(rule, path, fn.span, "exactly one format string in %s" % fname, "found %d format_args! invocations" % len(fms), extra="fmt")
            continue
        pieces = [norm_piece(p) for p in fms[0]["pieces"]]
        phs = [p for p in pieces if p[0] == "ph"]
        lits = [p[1] for p in pieces if p[0] == "lit"]
        tys = hex_arg_types(fn)
        ok_shape = len(phs) == len(args) and len(tys) == len(args)
        detail = []
        ok = ok_shape
        total = sum(len(l) for l in lits)
        eff_phs, eff_tys = [], []
        if ok_shape:
            for i, ((_, tr, width, zero, argi, prec, alt, sign), (b, ty, how), (want_ty, want_path)) in enumerate(zip(phs, tys, args)):
                src = prov.of_operand(fn, fn.term(b)["args"][0])
                if tr == "Display" and how == "Display" and ty in DISPLAY and DISPLAY[ty] in good_display and width is None and prec is None:
                    # `{}` on a TraceId / SpanId: what is written is what that type's (checked) Display writes
                    dl, dph, dty, dtotal = table[DISPLAY[ty]]
                    wp = want_path[:-1] if want_path[-1:] == (".0",) else want_path
                    flows = any(o.kind == "param" and o.key == 1 and tuple([q for q in o.path if q != "*"][-len(wp):]) == wp for o in src) if wp else True
                    good = dty == [want_ty] and argi == i and not dl
                    ok = ok and good and flows
                    total += dtotal
                    eff_phs.append(dph[0])
                    eff_tys.append(want_ty)
                    detail.append("{%s via Display w=%s <- %s}" % (ty.rsplit("::", 1)[1], dtotal, origin_strs(src, 2)))
                    continue
                need = BITS.get(ty, 0) // 4
                good = tr == "LowerHex" and zero and width is not None and width >= need and width == BITS.get(want_ty, 0) // 4 \
                    and ty == want_ty and prec is None and not alt and sign is None and argi == i
                flows = any(o.kind == "param" and o.key == 1 and tuple(o.path[-len(want_path):]) == want_path for o in src)
                ok = ok and good and flows
                total += width or 0
                eff_phs.append((tr, width, zero))
                eff_tys.append(ty)
                detail.append("{%s:%s w=%s zero=%s <- %s}" % (ty, tr, width, zero, origin_strs(src, 2)))
        table[path] = (lits, eff_phs or [(p[1], p[2], p[3]) for p in phs], eff_tys or [t for _, t, _ in tys], total)
        if ok and fname == "fmt":
            good_display.add(path)
        ctx.check(ok, rule, path, fms[0]["span"],
                  "%s writes every id as zero-padded lowercase hex whose width equals the maximum digit count of the formatted "
                  "integer type (fixed length for all values)" % fname,
                  "literals %s placeholders %s total length %d" % (lits, detail, total),
                  "shape/width/type/origin mismatch: literals %s placeholders %s hex argument types %s" % (lits, phs, [t for _, t, _ in tys]),
                  extra="fixed")
    enc = table.get(ID + "SpanContext::encode_w3c_traceparent")
    if enc:
        lits, phs, tys, total = enc
        ok = total == 55 and len(lits) == 3 and lits[0].endswith("-") and len(lits[0]) == 3 and lits[1] == lits[2] == lits[0][-1]
        ctx.check(ok, rule, ID + "SpanContext::encode_w3c_traceparent", "-",
                  "the traceparent is <2-char version><sep><32 hex><sep><16 hex><sep><2 hex>: 55 characters for every context",
                  "literals %s, sum of literals and widths = %d" % (lits, total), "literals %s, total %d" % (lits, total), extra="len55")
    return table


def decoder(ctx, facts, rule):
    """The traceparent decoder with the id types' own FromStr impls looked through (`field.parse::<TraceId>()` is the hex parse
    those impls perform; they are checked in their own right as readers of Display)."""
    from .core import inline_calls
    fn = ctx.need_fn(facts, ID + "SpanContext::decode_w3c_traceparent", rule)
    if fn is None:
        return None
    ids = {"<fastrace::collector::id::%s as core::str::traits::FromStr>::from_str" % t for t in ("TraceId", "SpanId")}
    if any(fn.term(b)["callee"] in ids for b in fn.calls()):
        fn = inline_calls(facts, fn, lambda g: g.path in ids, depth=2)
    return fn


def rule_reader_agrees(ctx, facts, rule, table):
    prov = Prov(facts)
    path = ID + "SpanContext::decode_w3c_traceparent"
    fn = decoder(ctx, facts, rule)
    enc = table.get(ID + "SpanContext::encode_w3c_traceparent")
    if fn is None or not enc:
        return
    lits, phs, tys, total = enc
    sep = lits[0][-1]
    version = lits[0][:-1]
    splits = fn.calls_re(r"core::str::<impl str>::split$", cleanup=False)
    ok = len(splits) == 1 and fn.term(splits[0])["args"][1].get("repr") == "'%s'" % sep
    ctx.check(ok, rule, path, fn.loc(splits[0]) if splits else fn.span, "the reader splits on the separator the writer emits (%r)" % sep,
              "", "split argument %s" % ([fn.term(b)["args"][1].get("repr") for b in splits]), extra="sep")
    nexts = [b for b in fn.calls_re(r"Iterator>?::next$", cleanup=False) if "Split<" in fn.term(b)["arg_tys"][0]]
    nexts.sort(key=lambda b: len(fn.dominators().get(b, ())))
    collects = [b for b in fn.calls_re(r"Iterator>?::collect$", cleanup=False) if "Split<" in " ".join(fn.term(b)["arg_tys"])]
    slice_form = bool(collects) and not nexts
    if slice_form:
        # the fields are collected and matched as a slice: `match fields[..] { ["00", a, b, c] => .. }`
        def arity(o):
            return any(v[0] == "binop" and v[1] == "Eq" and v[2] == 4 for v in o.via) and \
                (any(v[0] == "unop" and v[1] == "PtrMetadata" for v in o.via) or any(v[0] == "call" and v[1].endswith("::len") for v in o.via)) and \
                any(v[0] == "call" and v[2] in collects for v in o.via)
        four = bool_cond_edges(fn, prov, arity, True)
        ctx.check(bool(four), rule, path, fn.span,
                  "exactly four fields are accepted (the collected split has length 4)", "slice pattern of length 4", "no length test == 4 on the collected fields", extra="five")
        if not four:
            return
    else:
        chain = all(fn.dominates(nexts[i], nexts[i + 1]) for i in range(len(nexts) - 1))
        ctx.check(len(nexts) == 5 and chain, rule, path, fn.span,
                  "exactly five fields are requested from the split (four expected, the fifth must be absent)",
                  "", "%d Split::next calls" % len(nexts), extra="five")
        if len(nexts) != 5:
            return

    def index_of(origins):
        idx = set()
        for o in origins:
            if slice_form:
                if any(v[0] == "call" and v[2] in collects for v in o.via):
                    for e in o.path:
                        m = re.fullmatch(r"\[(\d+)\]", e)
                        if m:
                            idx.add(int(m.group(1)))
            else:
                for v in o.via:
                    if v[0] == "call" and v[2] in nexts:
                        idx.add(nexts.index(v[2]))
        return idx

    def field_index(op):
        """Which of the fields an operand derives from."""
        return index_of(prov.of_operand(fn, op))
    # version
    eqs = [b for b in fn.calls_re(r"PartialEq(<.*>)?>?::(eq|ne)$|PartialEq for str>::(eq|ne)$", cleanup=False)]
    okv = False
    for b in eqs:
        t = fn.term(b)
        lit = [a.get("repr") for a in t["args"] if a["k"] == "const"]
        other = [a for a in t["args"] if a["k"] != "const"]
        if lit == ['"%s"' % version] and other and field_index(other[0]) == {0}:
            okv = True
        # both sides behind references (`version != "00"`): the literal is an origin of one side, field 0 of the other
        if len(t["args"]) == 2 and not okv:
            for x, y in ((t["args"][0], t["args"][1]), (t["args"][1], t["args"][0])):
                xs = prov.of_operand(fn, x)
                if any(o.kind == "const" and str(o.key) == '"%s"' % version for o in xs) and field_index(y) == {0}:
                    okv = True
    ctx.check(okv, rule, path, fn.span, "field 0 is compared with the version literal the writer emits (%r)" % version, "",
              "comparisons: %s" % [[a.get("repr") for a in fn.term(b)["args"] if a["k"] == "const"] for b in eqs], extra="version")
    # typed fields
    parses = [b for b in fn.calls_re(r"core::num::<impl u\d+>::from_str_radix$", cleanup=False)]
    got = {}
    for b in parses:
        t = fn.term(b)
        ty = re.search(r"<impl (u\d+)>", t["callee"]).group(1)
        radix = const_value(fn, t["args"][1])
        got[tuple(sorted(field_index(t["args"][0])))] = (ty, radix, b)
    want = {(1,): tys[0], (2,): tys[1], (3,): tys[2]}
    for k, ty in want.items():
        g = got.get(k)
        ctx.check(g is not None and g[0] == ty and g[1] == 16, rule, path, fn.loc(g[2]) if g else fn.span,
                  "field %d is parsed as hexadecimal into the type the writer formats there (%s)" % (k[0], ty),
                  "%s" % (g[:2],) if g else "", "field %d parsed as %s" % (k[0], g and g[:2]), extra="field%d" % k[0])
    # results reach the right context fields
    news = fn.calls_re(r"SpanContext::new$", cleanup=False)
    if news:
        t = fn.term(news[0])
        a0 = prov.of_operand(fn, t["args"][0])
        a1 = prov.of_operand(fn, t["args"][1])
        f0 = any(v[0] == "call" and "<impl u128>::from_str_radix" in v[1] for o in a0 for v in o.via)
        f1 = any(v[0] == "call" and "<impl u64>::from_str_radix" in v[1] for o in a1 for v in o.via)
        ctx.check(f0 and f1, rule, path, fn.loc(news[0]), "the parsed trace id / span id become the context's trace_id / span_id", "",
                  "trace_id from u128 parse: %s, span_id from u64 parse: %s" % (f0, f1), extra="assign")
    samp = fn.calls_re(r"SpanContext::sampled$", cleanup=False)
    if samp:
        src = prov.of_operand(fn, fn.term(samp[0])["args"][1])
        oks = any(v[0] == "call" and "<impl u8>::from_str_radix" in v[1] for o in src for v in o.via) and \
            any(v[0] == "binop" and v[1] == "BitAnd" and v[2] == 1 for o in src for v in o.via) and \
            any(v[0] == "binop" and v[1] == "Eq" and v[2] == 1 for o in src for v in o.via)
        ctx.check(oks, rule, path, fn.loc(samp[0]), "sampled is bit 0 of the parsed flags byte", "", "origins %s" % origin_strs(src), extra="flags")
    # fields 0-3 present and a fifth field absent before anything is parsed -- whatever the shape of the test
    # (a match on the tuple of the five next() results, `?` on each, is_some()/is_none())
    def derives_from(k):
        def pred(pl):
            src = prov.of_place(fn, pl) if pl.get("p") is not None else set()
            idx = set()
            for o in src:
                for v in o.via:
                    if v[0] == "call" and v[2] in nexts and v[1].endswith("::next"):
                        idx.add(nexts.index(v[2]))
            if not pl["p"] and fn.term(nexts[k]).get("dest", {}).get("l") == pl["l"]:
                idx.add(k)
            return idx == {k}
        return pred
    if slice_form:
        ctx.check(bool(parses) and fn.guarded(parses, four), rule, path, fn.span,
                  "the ids are parsed only when fields 0-3 are present and a fifth field is absent", "guarded by the length-4 test",
                  "a parse is reachable without the length-4 test", extra="arity")
        return_after_arity = True
    else:
        return_after_arity = False
    some_edges = 0
    for k in range(0 if slice_form else 4):
        e = discr_cond_edges(fn, prov, r"Option<&", ["Some"], place_pred=derives_from(k))
        for sb in result_switches(fn, nexts[k]):
            e |= set(fn.variant_edges(sb, ["Some"]))
        if e and parses and fn.guarded(parses, e):
            some_edges += 1
    e5 = set() if slice_form else discr_cond_edges(fn, prov, r"Option<&", ["None"], place_pred=derives_from(4))
    for sb in ([] if slice_form else result_switches(fn, nexts[4])):
        e5 |= set(fn.variant_edges(sb, ["None"]))
    fifth_none = bool(parses) and bool(e5) and fn.guarded(parses, e5)
    if not return_after_arity:
      ctx.check(some_edges >= 4 and fifth_none, rule, path, fn.span,
              "the ids are parsed only when fields 0-3 are present and a fifth field is absent", "",
              "presence tests: %d, fifth-field-absent guard: %s" % (some_edges, fifth_none), extra="arity")
    # FromStr / Deserialize
    for ty, ity in (("TraceId", "u128"), ("SpanId", "u64")):
        for p in ("<fastrace::collector::id::%s as core::str::traits::FromStr>::from_str" % ty,
                  "<fastrace::collector::id::%s as serde::de::Deserialize<'de>>::deserialize" % ty):
            g = ctx.need_fn(facts, p, rule)
            if g is None:
                continue
            ps = g.calls_re(r"core::num::<impl u\d+>::from_str_radix$", cleanup=False)
            ok = len(ps) == 1 and ("<impl %s>" % ity) in g.term(ps[0])["callee"] and const_value(g, g.term(ps[0])["args"][1]) == 16
            if not ps and "Deserialize" in p:
                # read through the type's own FromStr (`s.parse()`), which is checked above
                via = [b for b in g.calls_re(r"core::str::<impl str>::parse$|str::traits::FromStr>?::from_str$", cleanup=False)
                       if ("fastrace::collector::id::%s" % ty) in " ".join(g.term(b).get("targs", []) + [g.term(b)["callee"], g.locals[g.term(b)["dest"]["l"]]])]
                ok = bool(via)
            ctx.check(ok, rule, p, g.span, "%s text is parsed as hexadecimal %s (the type and radix its Display writes)" % (ty, ity), "",
                      "parse calls: %s" % [g.term(b)["callee"] for b in ps], extra="reader")
            # the text handed to the parser is the text received: nothing trims, slices or rewrites it on the way
            # ("0000...0" must stay parseable: trimming the padding leaves "" for the id 0)
            REWRITE = r"<impl str>::(trim\w*|strip_\w+|split\w*|rsplit\w*|get|get_unchecked|replace\w*|to_\w*case|chars|bytes|char_indices)$|" \
                      r"Index(<.*>)?>?::index$|string::String::(truncate|remove|drain|replace_range|split_off|pop)$"
            for b in ps:
                src = prov.of_operand(g, g.term(b)["args"][0])
                rew = sorted({v[1].rsplit("::", 1)[1] for o in src for v in o.via if v[0] == "call" and re.search(REWRITE, v[1])})
                ctx.check(not rew, rule, p, g.loc(b), "the parser receives the text unchanged (no trimming / slicing before from_str_radix)", "",
                          "the text passes through %s before it is parsed: some fixed-width form the writer emits (all zeros) no longer parses" % rew,
                          extra="text-unchanged")
            if "Deserialize" in p:
                # an owned String (or a visitor) can be produced by every Deserializer; a borrowed &str cannot (readers,
                # value trees, escaped JSON strings hand out transient text only)
                borrowed = [g.term(b)["callee"] for b in g.calls_re(r"Deserialize<'de> for &'?\w* ?str>::deserialize$", cleanup=False)]
                ctx.check(not borrowed, rule, p, g.span, "the id text is deserialised as owned text (String / visitor), not as a borrowed &str", "",
                          "deserialises through %s: any Deserializer that cannot lend the text (from_reader, from_value, escapes) fails" % borrowed,
                          extra="owned-text")


def rule_serde_text_only(ctx, facts, rule):
    """TraceId / SpanId go through serde as text for every Serializer / Deserializer: the Serialize impls hand the
    serializer a string on every path (serialize_str / collect_str, nothing else asked of it), and the Deserialize impls
    ask the deserializer for text only. A second wire form chosen by `is_human_readable()` is not the hex form and has to
    be mirrored in four places to round-trip at all."""
    n = 0
    for ty in ("TraceId", "SpanId"):
        p = "<fastrace::collector::id::%s as serde::ser::Serialize>::serialize" % ty
        g = ctx.need_fn(facts, p, rule)
        if g is not None:
            n += 1
            asks = [b for b in g.calls(lambda t: re.search(r"serde::ser::Serializer::\w+$", t.get("decl", t["callee"]))) if not g.blocks[b]["cleanup"]]
            text = [b for b in asks if re.search(r"::(serialize_str|collect_str)$", g.term(b).get("decl", g.term(b)["callee"]))]
            other = sorted({g.term(b).get("decl", g.term(b)["callee"]).rsplit("::", 1)[1] for b in asks if b not in text})
            ok, wit = g.must_pass([0], text) if text else (False, None)
            ctx.check(bool(text) and not other and ok, rule, p, g.span,
                      "%s is serialised as a string on every path, whatever the Serializer" % ty, "text calls at %s" % [g.loc(b) for b in text],
                      "other requests to the serializer: %s; a path returns at bb%s without serialize_str/collect_str" % (other, wit),
                      extra="ser-text")
        p = "<fastrace::collector::id::%s as serde::de::Deserialize<'de>>::deserialize" % ty
        g = ctx.need_fn(facts, p, rule)
        if g is not None:
            n += 1
            asks = [b for b in g.calls(lambda t: re.search(r"serde::de::Deserializer::\w+$|serde::de::Deserialize::deserialize$", t.get("decl", t["callee"])))
                    if not g.blocks[b]["cleanup"]]

            def textual(t):
                d = t.get("decl", t["callee"])
                if re.search(r"Deserializer::deserialize_(str|string)$", d):
                    return True
                if d.endswith("Deserialize::deserialize"):
                    return bool(re.search(r"for (alloc::string::String|&'?\w* ?str|alloc::borrow::Cow<'?\w*,? ?str>|alloc::boxed::Box<str>)>::deserialize$", t["callee"]))
                return False
            other = sorted({g.term(b)["callee"].rsplit("::", 2)[-2][:60] + "::" + g.term(b)["callee"].rsplit("::", 1)[1] for b in asks if not textual(g.term(b))})
            ctx.check(bool(asks) and not other, rule, p, g.span,
                      "%s is deserialised from text only, whatever the Deserializer" % ty, "%d request(s), all textual" % len(asks),
                      "non-textual requests to the deserializer: %s" % other, extra="de-text")
    ctx.floor(rule, "fastrace::collector::id", n, 4, "serde impls of TraceId / SpanId")


SIGN_RECOGNISERS = r"is_ascii_hexdigit$|char::methods::<impl char>::(is_digit|to_digit|is_ascii_hexdigit)$|<impl u8>::is_ascii_hexdigit$|" \
                   r"<impl str>::(starts_with|strip_prefix|trim_start_matches)$"


def rule_sign_rejected(ctx, facts, rule):
    """from_str_radix accepts a leading '+' (documented). A traceparent field with a sign is not a hexadecimal number, so
    each field must pass an alphabet / sign test that dominates its parse (or the parse result is compared with the field's
    digits some other way: none of the accepted idioms below -> reported)."""
    prov = Prov(facts)
    path = ID + "SpanContext::decode_w3c_traceparent"
    fn = decoder(ctx, facts, rule)
    if fn is None:
        return
    nexts = [b for b in fn.calls_re(r"Iterator>?::next$", cleanup=False) if "Split<" in fn.term(b)["arg_tys"][0]]
    nexts.sort(key=lambda b: len(fn.dominators().get(b, ())))

    collects = [b for b in fn.calls_re(r"Iterator>?::collect$", cleanup=False) if "Split<" in " ".join(fn.term(b)["arg_tys"])]

    def fields_of(origins):
        idx = set()
        for o in origins:
            for v in o.via:
                if v[0] == "call" and v[2] in nexts and v[1].endswith("::next"):
                    idx.add(nexts.index(v[2]))
            if not nexts and any(v[0] == "call" and v[2] in collects for v in o.via):
                for e in o.path:      # collected fields matched as a slice: fields[k]
                    m = re.fullmatch(r"\[(\d+)\]", e)
                    if m:
                        idx.add(int(m.group(1)))
        return idx
    parses = [b for b in fn.calls_re(r"core::num::<impl u\d+>::from_str_radix$", cleanup=False)]
    if not ctx.floor(rule, path, len(parses), 3, "from_str_radix calls in the decoder"):
        return
    # boolean tests that look at a field's characters
    tests = []
    for b, blk in enumerate(fn.blocks):
        t = blk["term"]
        if t["k"] != "switch" or t["discr_ty"] != "bool" or t["discr"]["k"] == "const":
            continue
        origins = prov.of_operand(fn, t["discr"])
        rec = any(v[0] == "call" and re.search(SIGN_RECOGNISERS, v[1]) for o in origins for v in o.via)
        if rec:
            tests.append((b, fields_of(origins)))
    for b in parses:
        t = fn.term(b)
        ks = fields_of(prov.of_operand(fn, t["args"][0]))
        ok = False
        for k in ks:
            for sb, fs in tests:
                if k not in fs:
                    continue
                for d, lab in fn.edges(sb):
                    if fn.guarded([b], {(sb, d, lab)}):
                        ok = True
        ctx.check(ok, rule, path, fn.loc(b),
                  "a field reaches from_str_radix only past a test of its characters (from_str_radix accepts a leading '+', "
                  "which is not a hexadecimal digit)",
                  "field %s tested before the parse" % sorted(ks),
                  "field %s is parsed by %s with no dominating alphabet / sign test: decode_w3c_traceparent("
                  "\"00-+af7651916cd43dd8448eb211c80319c-b7ad6b7169203331-01\") is Some(..)" % (sorted(ks), t["callee"].split("::")[-2:]),
                  extra="sign-field%s" % "".join(map(str, sorted(ks))))


def rule_values_not_tested(ctx, facts, rule):
    """Acceptance is decided by the text alone: once a field parsed, no test of the parsed VALUE can lead to a None
    result (the writer emits every value, so rejecting some value breaks encode -> decode for it)."""
    prov = Prov(facts)
    path = ID + "SpanContext::decode_w3c_traceparent"
    fn = decoder(ctx, facts, rule)
    if fn is None:
        return
    none_blocks = set()
    for b, blk in enumerate(fn.blocks):
        for st in blk["stmts"]:
            if st["k"] == "assign" and st["lhs"]["l"] == 0 and not st["lhs"]["p"]:
                rv = st["rv"]
                if (rv["k"] == "agg" and rv.get("variant") == "None") or \
                        (rv["k"] == "use" and rv["op"]["k"] == "const" and "None" in str(rv["op"].get("repr"))):
                    none_blocks.add(b)
    n_parse = len(fn.calls_re(r"core::num::<impl u\d+>::from_str_radix$", cleanup=False))
    bad = []
    n_sw = 0
    for b, blk in enumerate(fn.blocks):
        t = blk["term"]
        if t["k"] != "switch" or t["discr_ty"] == "isize" or t["discr"]["k"] == "const":
            continue
        origins = prov.of_operand(fn, t["discr"])
        if not any(v[0] == "call" and "from_str_radix" in v[1] for o in origins for v in o.via):
            continue
        n_sw += 1
        r = fn.reach([(b, d) for d, _ in fn.edges(b)])
        hit = sorted(r & none_blocks)
        if hit:
            bad.append((fn.loc(b), hit))
    ctx.check(not bad and n_parse >= 1, rule, path, fn.span,
              "no test of a parsed id / flags value leads to a None result (every value the writer can emit is accepted back)",
              "%d parse calls, %d value tests, %d explicit None results" % (n_parse, n_sw, len(none_blocks)),
              "a parsed value is tested at %s and one outcome returns None: the header the encoder writes for that value no "
              "longer decodes" % bad, extra="value-tests")


def rule_error_discipline(ctx, facts, rule):
    fns = [ID + "SpanContext::decode_w3c_traceparent"] + [
        "<fastrace::collector::id::%s as %s" % (ty, tr) for ty in ("TraceId", "SpanId")
        for tr in ("core::str::traits::FromStr>::from_str", "serde::de::Deserialize<'de>>::deserialize")]
    n = 0
    for p in fns:
        fn = facts.fn(p) if not p.endswith("decode_w3c_traceparent") else decoder(ctx, facts, rule)
        if fn is None:
            continue
        for b in fn.calls_re(r"core::num::<impl u\d+>::from_str_radix$", cleanup=False):
            n += 1
            dest = fn.term(b)["dest"]["l"]
            users = [fn.term(x)["callee"] for x in fn.calls() for a in fn.term(x)["args"][:1]
                     if a["k"] in ("copy", "move") and root_local(fn, a)[0] == dest and not passes_downcast(fn, a)]
            # `match parse { Ok(v) => Ok(..), Err(e) => Err(..) }`: from the Err arm only an Err is returned
            matched_ok = False
            for sb in range(len(fn.blocks)):
                info = fn.switch_info(sb)
                if info and info.get("kind") == "discr" and info["place"]["l"] == dest and not info["place"]["p"] and not fn.blocks[sb]["cleanup"]:
                    err = fn.variant_edges(sb, ["Err"])
                    r = fn.reach([(a_, d_) for a_, d_, _ in err]) if err else set()
                    rets = [(bb, st_) for bb in r for st_ in fn.blocks[bb]["stmts"] if st_["k"] == "assign" and st_["lhs"]["l"] == 0 and not st_["lhs"]["p"]]
                    matched_ok = bool(err) and bool(rets) and all(st_["rv"]["k"] == "agg" and st_["rv"].get("variant") == "Err" for _, st_ in rets)
            returned = any(s["k"] == "assign" and s["lhs"]["l"] == 0 and s["rv"]["k"] == "use" and s["rv"]["op"].get("l") == dest
                           for blk in fn.blocks for s in blk["stmts"])
            if p.endswith("decode_w3c_traceparent"):
                ok = users and all(re.search(r"Result::<T, E>::(ok|map)$", u) for u in users)
                # and the Option goes through `?`
                for x in fn.calls_re(r"Result::<T, E>::ok$", cleanup=False):
                    if root_local(fn, fn.term(x)["args"][0])[0] == dest:
                        d2 = fn.term(x)["dest"]["l"]
                        u2 = [fn.term(y)["callee"] for y in fn.calls() for a in fn.term(y)["args"][:1]
                              if a["k"] in ("copy", "move") and root_local(fn, a)[0] == d2]
                        ok = ok and u2 and all(re.search(r"Try>?::branch$", u) for u in u2)
            else:
                ok = (users and all(re.search(r"Result::<T, E>::(map|map_err|and_then)$|Try>?::branch$", u) for u in users)) or (returned and not users) \
                    or (matched_ok and not users)
            ctx.check(bool(ok), rule, p, fn.loc(b),
                      "a failed hexadecimal parse is propagated (ok()? / map / map_err), never unwrapped or defaulted",
                      "consumers %s" % [u.rsplit("::", 1)[1] for u in users], "consumers %s" % users, extra="parse#%d" % n if p.endswith("traceparent") else "parse")
    ctx.floor(rule, ID.rstrip(":"), n, 5, "from_str_radix call sites in the readers (3 in the decoder, FromStr of both ids)")


def rule_no_panic_sites(ctx, facts, rule):
    names = re.compile(r"SpanContext::(decode_w3c_traceparent|encode_w3c_traceparent|encode_w3c_traceparent_with_sampled)$|"
                       r"<fastrace::collector::id::(TraceId|SpanId) as (core::fmt::Display>::fmt|core::str::traits::FromStr>::from_str|"
                       r"serde::ser::Serialize>::serialize|serde::de::Deserialize<'de>>::deserialize)$")
    bodies = [fn for p, fn in facts.fns.items() if names.search(p)]
    ctx.floor(rule, ID.rstrip(":"), len(bodies), 11, "codec functions")
    inv = panics.Inventory(ctx, facts)
    closure_bodies = bodies + [c for b in bodies for c in facts.closures_of(b)]
    sites = inv.sites(closure_bodies)
    ctx.check(not sites, rule, ID.rstrip(":"), "-", "no Assert terminator and no panicking callee in the codec functions "
              "(decoding arbitrary text cannot panic in fastrace's own code)", "%d bodies inspected" % len(closure_bodies),
              "panic sites: %s" % [(fn.path, fn.loc(b), msg) for fn, b, k, msg in sites], extra="sites")
