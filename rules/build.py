"""Facts builds: run the mirfacts driver over /repo for a configuration, cached per tree hash."""
import fcntl
import glob
import hashlib
import json
import os
import shutil
import subprocess
import sys
import time

VERIF = os.path.dirname(os.path.dirname(os.path.abspath(__file__)))
REPO = os.environ.get("VERIF_REPO", "/repo")
CACHE = os.path.join(VERIF, ".cache")
DRIVER = os.path.join(VERIF, "driver", "target", "release", "mirfacts")

MEMBERS = ["fastrace", "fastrace-futures", "fastrace-jaeger", "fastrace-datadog",
           "fastrace-opentelemetry", "fastrace-macro", "test-statically-disable"]

E_PKGS = ["-p", "fastrace@0.7.9", "-p", "fastrace-futures", "-p", "fastrace-jaeger",
          "-p", "fastrace-datadog", "-p", "fastrace-opentelemetry", "-p", "fastrace-macro@0.7.9",
          "--features", "fastrace/enable"]

CONFIGS = {
    # key: (cwd, cargo args, extra rustflags, expected crates -> floor on number of bodies)
    "E": (REPO, ["check"] + E_PKGS, "",
          {"fastrace": 220, "fastrace_futures": 12, "fastrace_jaeger": 38,
           "fastrace_datadog": 6, "fastrace_opentelemetry": 7, "fastrace_macro": 12}),
    "Er": (REPO, ["check"] + E_PKGS, "-Cdebug-assertions=off",
           {"fastrace": 220, "fastrace_futures": 12, "fastrace_jaeger": 38,
            "fastrace_datadog": 6, "fastrace_opentelemetry": 7, "fastrace_macro": 12}),
    "D": (REPO, ["check", "-p", "test-statically-disable"], "",
          {"fastrace": 200, "test_statically_disable": 8}),
    "X": (os.path.join(VERIF, "corpus", "trace_shapes"), ["check"], "",
          {"trace_shapes": 40}),
    "F": (os.path.join(VERIF, "fixtures", "shapes"), ["check"], "",
          {"fixture_shapes": 10}),
}


def _sh(cmd):
    return subprocess.run(cmd, shell=True, capture_output=True, text=True).stdout.strip()


_nightly = None


def nightly():
    global _nightly
    if _nightly is None:
        rustc = _sh("rustup which --toolchain nightly rustc")
        sysroot = _sh("rustc +nightly --print sysroot")
        _nightly = (rustc, os.path.join(sysroot, "lib"))
    return _nightly


def tree_hash(extra_dirs=(), repo=None):
    h = hashlib.sha256()
    roots = [repo or REPO] + list(extra_dirs)
    for root in roots:
        files = []
        for dp, dn, fn in os.walk(root):
            dn[:] = sorted(d for d in dn if d not in ("target", ".git", ".cache"))
            for f in sorted(fn):
                if f.endswith(".rs") or f in ("Cargo.toml", "Cargo.lock", "rust-toolchain.toml"):
                    files.append(os.path.join(dp, f))
        for f in files:
            h.update(os.path.relpath(f, root).encode())
            h.update(b"\0")
            with open(f, "rb") as fh:
                h.update(fh.read())
            h.update(b"\0")
    with open(DRIVER, "rb") as fh:
        h.update(hashlib.sha256(fh.read()).digest())
    return h.hexdigest()[:24]


class Lock:
    def __init__(self, name):
        os.makedirs(CACHE, exist_ok=True)
        self.path = os.path.join(CACHE, name + ".lock")

    def __enter__(self):
        self.fh = open(self.path, "w")
        fcntl.flock(self.fh, fcntl.LOCK_EX)
        return self

    def __exit__(self, *a):
        fcntl.flock(self.fh, fcntl.LOCK_UN)
        self.fh.close()


def _prepare_corpus(repo=None, cdir=None):
    """The corpus crate path-depends on the repository; it needs the repository's lock file to resolve offline."""
    cdir = cdir or CONFIGS["X"][0]
    src = os.path.join(repo or REPO, "Cargo.lock")
    dst = os.path.join(cdir, "Cargo.lock")
    if os.path.exists(src):
        shutil.copyfile(src, dst)


def _scratch_corpus(repo):
    """A copy of the corpus crate that path-depends on a scratch copy of the repository."""
    dst = os.path.join(repo, ".verif-corpus")
    if os.path.exists(dst):
        shutil.rmtree(dst)
    shutil.copytree(CONFIGS["X"][0], dst, ignore=shutil.ignore_patterns("target", "Cargo.lock"))
    p = os.path.join(dst, "Cargo.toml")
    t = open(p).read().replace('path = "/repo/fastrace"', 'path = "%s/fastrace"' % repo)
    open(p, "w").write(t)
    return dst


class _NoLock:
    def __enter__(self):
        return self

    def __exit__(self, *a):
        return False


def build(cfg, force=False, verbose=False, repo=None, have_lock=False):
    """Return (facts_dir, info). Builds when the cache for the current tree is missing.
    repo: analyse a scratch copy of the repository instead of /repo (sensitivity self-test only)."""
    cwd, cargo_args, extra_flags, floors = CONFIGS[cfg]
    if repo is not None:
        cwd = _scratch_corpus(repo) if cfg == "X" else (cwd if cfg == "F" else repo)
    extra = [os.path.join(VERIF, "corpus")] if cfg == "X" else ([os.path.join(VERIF, "fixtures")] if cfg == "F" else [])
    th = tree_hash(extra, repo)
    out = os.path.join(CACHE, "facts", th, cfg)
    info = {"config": cfg, "tree_hash": th, "cache_hit": False, "build_s": 0.0}
    with (_NoLock() if have_lock else Lock("build-" + cfg)):
        done = os.path.join(out, ".done")
        if os.path.exists(done) and not force:
            info["cache_hit"] = True
            return out, info
        if not os.path.exists(DRIVER):
            raise SystemExit("mirfacts driver not built: run MANIFEST.setup_cmd (./verif setup)")
        if os.path.exists(out):
            shutil.rmtree(out)
        os.makedirs(out)
        target = os.path.join(CACHE, "target-" + cfg)
        # cargo replays cached successes without invoking the wrapper: forget the members
        for prof in glob.glob(os.path.join(target, "*", ".fingerprint")) + glob.glob(os.path.join(target, ".fingerprint")):
            for d in os.listdir(prof):
                if any(d.startswith(m + "-") for m in MEMBERS + ["trace_shapes", "trace-shapes", "fixture_shapes", "fixture-shapes"]):
                    shutil.rmtree(os.path.join(prof, d), ignore_errors=True)
        if cfg == "X":
            _prepare_corpus(repo, cwd if repo is not None else None)
        rustc, libdir = nightly()
        env = dict(os.environ)
        env.update({
            "RUSTC": rustc,
            "LD_LIBRARY_PATH": libdir + ((":" + env["LD_LIBRARY_PATH"]) if env.get("LD_LIBRARY_PATH") else ""),
            "RUSTFLAGS": ("-Zmir-opt-level=0 -Awarnings " + extra_flags).strip(),
            "RUSTC_WORKSPACE_WRAPPER": DRIVER,
            "CARGO_TARGET_DIR": target,
            "MIRFACTS_OUT": out,
            "CARGO_NET_OFFLINE": "true",
            "RUSTC_BOOTSTRAP": "1",
        })
        env.pop("RUSTUP_TOOLCHAIN", None)
        # the corpus crate starts from a copy of /repo's lock file and adds itself to it (still offline)
        cmd = ["cargo", "+1.80.0"] + cargo_args[:1] + ["--offline"] + ([] if cfg in ("X", "F") else ["--locked"]) + cargo_args[1:]
        t0 = time.time()
        r = subprocess.run(cmd, cwd=cwd, env=env, capture_output=True, text=True)
        info["build_s"] = round(time.time() - t0, 2)
        info["cmd"] = " ".join(cmd)
        if r.returncode != 0:
            sys.stderr.write(r.stderr[-6000:])
            raise BuildError("facts build for config %s failed (the tree does not compile?)" % cfg, r.stderr[-3000:])
        if verbose:
            sys.stderr.write(r.stderr[-1500:])
        # fail closed: every expected crate must have been (re)written with enough bodies
        seen = {}
        for f in glob.glob(os.path.join(out, "*.json")):
            try:
                with open(f) as fh:
                    meta = json.load(fh)["meta"]
            except Exception as e:  # truncated file
                raise BuildError("unreadable fact file %s: %s" % (f, e), "")
            if meta["is_test"]:
                continue
            seen[meta["crate"]] = max(seen.get(meta["crate"], 0), meta["n_fns"])
        for crate, floor in floors.items():
            if seen.get(crate, 0) < floor:
                raise BuildError("facts for crate %s missing or too small (%s bodies < floor %d) in config %s"
                                 % (crate, seen.get(crate), floor, cfg), r.stderr[-2000:])
        with open(done, "w") as fh:
            json.dump(info, fh)
        # which tree the artefacts in the shared target directory belong to (the compile-fail witnesses link against them)
        with open(os.path.join(target, ".verif_tree"), "w") as fh:
            fh.write(th)
        # keep the cache small: drop facts of other trees
        base = os.path.join(CACHE, "facts")
        for d in os.listdir(base):
            if d != th:
                p = os.path.join(base, d, cfg)
                if os.path.isdir(p):
                    shutil.rmtree(p, ignore_errors=True)
                try:
                    os.rmdir(os.path.join(base, d))
                except OSError:
                    pass
    return out, info


class BuildError(Exception):
    def __init__(self, msg, log):
        super().__init__(msg)
        self.log = log
