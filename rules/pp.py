#!/usr/bin/env python3
"""Pretty-print facts: pp.py <facts.json> [substring of fn path]"""
import json, sys

def place(p):
    s = "_%d" % p["l"]
    for e in p["p"]:
        s = "(*%s)" % s if e == "*" else s + e
    return s

def op(o):
    k = o["k"]
    if k in ("copy", "move"):
        return ("move " if k == "move" else "") + place(o)
    if k == "const":
        if "fn" in o: return "fn:" + o["fn"]
        if "static" in o: return "&static:" + o["static"]
        return o.get("repr", "?")
    return o.get("repr", "?")

def rv(r):
    k = r["k"]
    if k == "use": return op(r["op"])
    if k == "ref": return ("&mut " if r["mut"] else "&") + place(r["place"])
    if k == "rawptr": return "&raw " + place(r["place"])
    if k == "tls": return "tls:" + r["static"]
    if k == "cast": return "%s as %s (%s)" % (op(r["op"]), r["ty"], r["cast"])
    if k == "binop": return "%s(%s, %s)" % (r["op"], op(r["a"]), op(r["b"]))
    if k == "unop": return "%s(%s)" % (r["op"], op(r["a"]))
    if k == "discr": return "discriminant(%s) %s" % (place(r["place"]), r["variants"])
    if k == "repeat": return "[%s; n]" % op(r["op"])
    if k == "agg":
        ops = [op(x) for x in r["ops"]]
        if "adt" in r:
            return "%s::%s{%s}" % (r["adt"], r["variant"], ", ".join("%s: %s" % (f, o) for f, o in zip(r["fields"], ops)))
        if "closure" in r:
            return "closure:%s{%s}" % (r["closure"], ", ".join("%s: %s" % (f, o) for f, o in zip(r["fields"], ops)))
        return "(%s)" % ", ".join(ops)
    return r.get("repr", "?")

def term(t):
    k = t["k"]
    if k == "goto": return "goto bb%d" % t["target"]
    if k == "switch":
        return "switch(%s) [%s, otherwise: bb%d]" % (op(t["discr"]), ", ".join("%d: bb%d" % (v, b) for v, b in t["targets"]), t["otherwise"])
    if k == "drop":
        return "drop(%s: %s) -> bb%s unwind %s  glue=%s" % (place(t["place"]), t["ty"], t["target"], t["unwind"], [g.split("|")[0] for g in t["glue"]])
    if k == "call":
        return "%s = %s(%s) -> %s unwind %s   [%s decl=%s]" % (place(t["dest"]) if "dest" in t else "_", t["callee"], ", ".join(op(a) for a in t["args"]), "bb%s" % t["target"] if t["target"] is not None else "!", t.get("unwind"), t["ck"], t["decl"])
    if k == "assert":
        return "assert(%s == %s, %s) -> bb%d" % (op(t["cond"]), t["expected"], t["msg"], t["target"])
    if k == "yield":
        return "yield(%s) -> bb%d drop %s" % (op(t["value"]), t["target"], t["drop"])
    return k

def show(f):
    print("fn %s  [%s, %s, %s]" % (f["path"], f["kind"], f["phase"], f["span"]))
    for k in ("impl_self", "impl_trait", "inputs", "output", "generics", "predicates", "captures", "coroutine"):
        if k in f: print("   %s: %s" % (k, f[k]))
    names = {}
    for n in f["names"]:
        names.setdefault(place(n["place"]), n["name"])
    for i, t in enumerate(f["locals"]):
        print("   let _%d: %s%s" % (i, t, "   // " + names["_%d" % i] if "_%d" % i in names else ""))
    for i, b in enumerate(f["blocks"]):
        print("  bb%d%s:" % (i, " (cleanup)" if b["cleanup"] else ""))
        for s in b["stmts"]:
            if s["k"] == "assign":
                print("      %s = %s" % (place(s["lhs"]), rv(s["rv"])))
            else:
                print("      discriminant(%s) = %s" % (place(s["lhs"]), s["variant"]))
        print("      %s        // %s" % (term(b["term"]), b["term"]["span"]))

if __name__ == "__main__":
    d = json.load(open(sys.argv[1]))
    pat = sys.argv[2] if len(sys.argv) > 2 else None
    if pat is None:
        print(json.dumps(d["meta"]))
        for f in d["fns"]: print(f["path"])
    else:
        for f in d["fns"]:
            if pat in f["path"]:
                show(f); print()
