"""C20: the Jaeger reporter's adaptive batch splitter."""
import re

from .core import Prov, const_value, has_origin, origin_strs, root_local, result_switches

TR = "fastrace_jaeger::JaegerReporter::try_report"
LIMIT = 8000            # the property: every datagram is smaller than 8000 bytes


def local_defs_from(fn, local, pred):
    """Blocks in which `local` is assigned a value whose defining rvalue satisfies pred(rv) (through one move)."""
    out = []
    for (b, i, s) in fn.defs(local):
        if i == "term" or s["k"] != "assign" or s["lhs"]["p"]:
            continue
        rv = s["rv"]
        cur = rv
        if rv["k"] == "use" and rv["op"]["k"] in ("copy", "move"):
            sd = fn.single_def(rv["op"]["l"])
            if sd and sd[1] != "term" and sd[2]["k"] == "assign":
                cur = sd[2]["rv"]
        if pred(cur):
            out.append((b, cur))
    return out


def check_all(ctx, facts):
    prov = Prov(facts)
    fn = ctx.need_fn(facts, TR, "R1")
    if fn is None:
        return
    sends = fn.calls_re(r"std::net::udp::UdpSocket::send_to$|UdpSocket::send$", cleanup=False)
    if len(sends) != 1:
        ctx.fail("R1", TR, fn.span, "exactly one datagram send site", "found %d" % len(sends), extra="send")
        return
    S = sends[0]
    buf = root_local(fn, fn.term(S)["args"][1])[0]
    # ---------------------------------------------------------------- R1: the send is guarded by the limit
    edges = set()
    bound = None
    for sb in range(len(fn.blocks)):
        info = fn.switch_info(sb)
        if not info or info.get("kind") != "binop" or info["op"] not in ("Lt", "Le", "Gt", "Ge"):
            continue
        a, b = info["a"], info["b"]
        ka, kb = const_value(fn, a), const_value(fn, b)

        def is_len(op):
            if op["k"] not in ("copy", "move"):
                return False
            sd = fn.single_def(op["l"])
            return bool(sd and sd[1] == "term" and re.search(r"Vec::<T, A>::len$|slice::<impl \[T\]>::len$", sd[2]["callee"])
                        and root_local(fn, sd[2]["args"][0])[0] == buf)
        op = info["op"]
        if is_len(a) and kb is not None:
            K, lhs_len = kb, True
        elif is_len(b) and ka is not None:
            K, lhs_len = ka, False
            op = {"Lt": "Gt", "Le": "Ge", "Gt": "Lt", "Ge": "Le"}[op]
        else:
            continue
        # len <op> K ; on which outcome is len bounded above, and by what?
        if op == "Ge":
            want, ub = False, K - 1
        elif op == "Gt":
            want, ub = False, K
        elif op == "Lt":
            want, ub = True, K - 1
        else:
            want, ub = True, K
        es = fn.switch_edges(sb, want)
        edges |= set(es)
        bound = ub if bound is None else max(bound, ub)
    if not edges:
        # the size test turned into an Option: `(bytes.len() < MAX).then_some(bytes)` matched later -- Some means "fits".
        # The buffer measured and the buffer sent are the same serialize() result.
        sent_src = prov.of_operand(fn, fn.term(S)["args"][1])
        ser_blocks = {v[2] for o in sent_src for v in o.via if v[0] == "call" and v[1].endswith("JaegerReporter::serialize")}
        for sb in range(len(fn.blocks)):
            info = fn.switch_info(sb)
            if not info or info.get("kind") != "discr" or "Option<" not in info["ty"] or fn.blocks[sb]["cleanup"]:
                continue
            for o in prov.of_place(fn, info["place"]):
                th = [v for v in o.via if v[0] == "call" and re.search(r"bool>?::(then_some|then)$", v[1])]
                if not th or th[0][2] >= len(fn.blocks) or fn.blocks[th[0][2]]["term"].get("callee") != th[0][1]:
                    continue
                cond = fn.term(th[0][2])["args"][0]
                for c in prov.of_operand(fn, cond):
                    cmpv = [v for v in c.via if v[0] == "binop" and v[1] in ("Lt", "Le", "Gt", "Ge") and v[2] is not None]
                    lens = [v for v in c.via if v[0] == "call" and re.search(r"Vec::<T, A>::len$|slice::<impl \[T\]>::len$", v[1])]
                    same = any(v[0] == "call" and v[2] in ser_blocks for v in c.via)
                    if not cmpv or not lens or not same or c.kind == "const":
                        continue
                    opn, K, side = cmpv[0][1], cmpv[0][2], (cmpv[0][3] if len(cmpv[0]) > 3 else "a")
                    if side == "b":      # the length is the right operand: K <op> len
                        opn = {"Lt": "Gt", "Le": "Ge", "Gt": "Lt", "Ge": "Le"}[opn]
                    if opn in ("Lt", "Le"):      # Some <=> len < K (or <= K)
                        edges |= set(fn.variant_edges(sb, ["Some"]))
                        ub = K - 1 if opn == "Lt" else K
                        bound = ub if bound is None else max(bound, ub)
    ok = bool(edges) and fn.guarded([S], edges) and bound is not None and bound <= LIMIT - 1
    ctx.check(ok, "R1", TR, fn.loc(S),
              "the datagram is sent only across an edge on which its encoded length is at most %d bytes" % (LIMIT - 1),
              "normalised guard: len(bytes) <= %s on edges %s" % (bound, sorted((a, d) for a, d, _ in edges)),
              "guard edges %s, upper bound on the sending edge: %s" % (sorted((a, d) for a, d, _ in edges), bound), extra="limit")
    # the bytes sent are the bytes measured, and they encode the converted window
    ser = fn.calls_re(r"JaegerReporter::serialize$", cleanup=False)
    conv = fn.calls_re(r"JaegerReporter::convert$", cleanup=False)
    okb = bool(ser) and bool(conv) and any(v[0] == "call" and v[1].endswith("JaegerReporter::serialize") for o in prov.of_operand(fn, fn.term(S)["args"][1]) for v in o.via) \
        and any(v[0] == "call" and v[1].endswith("JaegerReporter::convert") for o in prov.of_operand(fn, fn.term(ser[0])["args"][1]) for v in o.via)
    ctx.check(okb, "R1", TR, fn.loc(S), "what is sent is serialize(convert(window)) -- the buffer whose length was tested", "", "chain broken", extra="chain")

    # ---------------------------------------------------------------- loop structure
    # loop condition: Lt(sent, len(spans)) (or mirrored); the natural loop of its block's header
    header = None
    sent = None
    for sb in range(len(fn.blocks)):
        info = fn.switch_info(sb)
        if info and info.get("kind") == "binop" and info["op"] in ("Lt", "Gt", "Le", "Ge", "Ne") and fn.on_cycle(sb):
            for side, oth in (("a", "b"), ("b", "a")):
                o = info[oth]
                if o["k"] in ("copy", "move"):
                    sd = fn.single_def(root_local(fn, o)[0])       # `let total = spans.len();` hoisted out of the loop is the same bound
                    if sd and sd[1] == "term" and sd[2]["callee"].endswith("slice::<impl [T]>::len") and root_local(fn, sd[2]["args"][0])[0] == 2:
                        s = info[side]
                        if s["k"] in ("copy", "move"):
                            cand = root_local(fn, s)[0]
                            # exits of the loop through this switch
                            header = sb
                            sent = cand
                            cond = info
                            cond_side = side
    slice_model = False
    if header is None:
        # the other cursor shape: a shrinking slice `remaining` (`while !remaining.is_empty() { .. remaining = rest }`)
        for sb in range(len(fn.blocks)):
            t = fn.blocks[sb]["term"]
            if t["k"] != "switch" or t["discr_ty"] != "bool" or not fn.on_cycle(sb) or t["discr"]["k"] == "const":
                continue
            for o in prov.of_operand(fn, t["discr"]):
                calls = [v for v in o.via if v[0] == "call" and v[1].endswith("slice::<impl [T]>::is_empty")]
                if not calls or calls[0][2] >= len(fn.blocks) or fn.blocks[calls[0][2]]["term"].get("callee") != calls[0][1]:
                    continue
                arg = fn.term(calls[0][2])["args"][0]
                rl = root_local(fn, arg)[0]
                if rl > fn.arg_count and "SpanRecord]" in fn.locals[rl] and any(x.kind == "param" and x.key == 2 for x in prov.of_local(fn, rl)):
                    header, sent, slice_model = sb, rl, True
                    cond = {"op": "IsEmpty", "neg": sum(1 for v in o.via if v[0] == "unop" and v[1] == "Not") % 2 == 1}
                    cond_side = "a"
    if header is None:
        ctx.fail("R2", TR, fn.span, "the send loop compares a progress counter with spans.len() (or runs while a shrinking slice of the "
                 "spans is non-empty)", "no such loop condition", extra="loop")
        return
    # the natural loop: find the header block that dominates the condition and is a back-edge target
    heads = [h for h in range(len(fn.blocks)) if fn.dominates(h, header) and len(fn.natural_loop(h)) > 1 and header in fn.natural_loop(h)]
    heads.sort(key=lambda h: len(fn.natural_loop(h)))
    H = heads[-1] if heads else header
    body = {b for b in fn.natural_loop(H) if not fn.blocks[b]["cleanup"]}
    mins = [b for b in fn.calls_re(r"cmp::Ord::min$|cmp::min$", cleanup=False) if b in body]
    batch = fn.term(mins[0])["dest"]["l"] if mins else None
    per_batch = root_local(fn, fn.term(mins[0])["args"][0])[0] if mins else None
    if batch is None:
        ctx.fail("R2", TR, fn.span, "batch_size = min(spans_per_batch, remaining)", "no Ord::min in the loop", extra="min")
        return
    rem = prov.of_operand(fn, fn.term(mins[0])["args"][1])
    ok_rem = any(v[0] == "binop" and v[1] in ("SubWithOverflow", "Sub") for o in rem for v in o.via) and \
        any(v[0] == "call" and v[1].endswith("slice::<impl [T]>::len") for o in rem for v in o.via)
    if slice_model:
        lens = [v[2] for o in rem for v in o.via if v[0] == "call" and v[1].endswith("slice::<impl [T]>::len")]
        ok_rem = bool(lens) and all(root_local(fn, fn.term(l)["args"][0])[0] == sent for l in lens if l < len(fn.blocks) and fn.blocks[l]["term"]["k"] == "call")
    ctx.check(ok_rem, "R3", TR, fn.loc(mins[0]), "batch_size is bounded by the number of spans not yet handled (len - sent_spans)", "",
              "second argument of min: %s" % origin_strs(rem), extra="remaining")

    def add_of(local):
        def pred(rv):
            return rv["k"] == "binop" and rv["op"] in ("AddWithOverflow", "Add") and \
                ((rv["a"]["k"] in ("copy", "move") and root_local(fn, rv["a"])[0] == local) or
                 (rv["b"]["k"] in ("copy", "move") and root_local(fn, rv["b"])[0] == local))
        return pred

    incs = local_defs_from(fn, sent, add_of(sent))
    slice_incs = []
    splits = []
    if slice_model:
        # remaining = rest (of split_at(remaining, batch_size)) | remaining = &remaining[k..]
        for (db, i, st) in fn.defs(sent):
            if i == "term" or st["k"] != "assign" or st["lhs"]["p"] or db not in body:
                continue
            src = prov._of_rvalue(fn, db, st["rv"], (), 0, set())
            sp = [v[2] for o in src for v in o.via if v[0] == "call" and re.search(r"slice::<impl \[T\]>::split_at(_checked)?$", v[1])]
            ix = [v[2] for o in src for v in o.via if v[0] == "call" and re.search(r"Index(<.*>)?( for \[T\])?>?::index$", v[1])]
            if sp and any(".1" in o.path for o in src):
                t2 = fn.term(sp[0])
                isb = root_local(fn, t2["args"][0])[0] == sent and t2["args"][1]["k"] in ("copy", "move") and root_local(fn, t2["args"][1])[0] == batch
                slice_incs.append((db, None, isb))
                splits.append(sp[0])
            elif ix:
                t2 = fn.term(ix[0])
                k = None
                rng = t2["args"][1]
                if rng["k"] in ("copy", "move"):
                    sd = fn.single_def(root_local(fn, rng)[0])
                    if sd and sd[1] != "term" and sd[2]["rv"]["k"] == "agg" and sd[2]["rv"].get("adt", "").endswith("ops::range::RangeFrom"):
                        k = const_value(fn, sd[2]["rv"]["ops"][0])
                if root_local(fn, t2["args"][0])[0] == sent:
                    slice_incs.append((db, k, False))
    divs = local_defs_from(fn, per_batch, lambda rv: rv["k"] == "binop" and rv["op"] == "Div" and
                           rv["a"]["k"] in ("copy", "move") and root_local(fn, rv["a"])[0] == per_batch)
    inc_info = []
    for b, rv in incs:
        other = rv["b"] if root_local(fn, rv["a"])[0] == sent and rv["a"]["k"] != "const" else rv["a"]
        cv = const_value(fn, other)
        is_batch = other["k"] in ("copy", "move") and root_local(fn, other)[0] == batch
        inc_info.append((b, cv, is_batch))
    if slice_model:
        inc_info = slice_incs
    div_info = [(b, const_value(fn, rv["b"])) for b, rv in divs]
    # ---------------------------------------------------------------- R2: progress on every iteration
    progress = {b for b, cv, isb in inc_info if (cv is not None and cv >= 1) or isb} | {b for b, c in div_info if c is not None and c > 1}
    # cycles through the header that avoid every progress block
    stuck = False
    for d in fn.succs(H):
        if d in body and d not in progress and H in fn.reach([d], avoid_blocks=progress):
            stuck = True
    ctx.check(bool(progress) and not stuck, "R2", TR, fn.span,
              "every iteration of the send loop advances sent_spans (by 1 or batch_size) or divides spans_per_batch by a constant > 1",
              "progress blocks %s" % sorted(progress), "a cycle through the loop header avoids every progress update %s" % sorted(progress),
              extra="progress")

    # batch_size <= 1 edges
    def small(want):
        out = set()
        for sb in body:
            info = fn.switch_info(sb)
            if info and info.get("kind") == "binop" and info["op"] in ("Le", "Lt", "Gt", "Ge", "Eq"):
                a, b = info["a"], info["b"]
                if a["k"] in ("copy", "move") and root_local(fn, a)[0] == batch and const_value(fn, b) is not None:
                    k, op = const_value(fn, b), info["op"]
                    # batch <= 1 ?
                    if (op == "Le" and k == 1) or (op == "Lt" and k == 2):
                        out |= set(fn.switch_edges(sb, want))
                    elif (op == "Gt" and k == 1) or (op == "Ge" and k == 2):
                        out |= set(fn.switch_edges(sb, not want))
        return out
    le1_true, le1_false = small(True), small(False)
    for b, c in div_info:
        ctx.check(bool(le1_false) and fn.guarded([b], le1_false), "R2", TR, fn.loc(b),
                  "spans_per_batch is halved only when batch_size > 1 (so it never reaches 0 while spans remain)", "",
                  "the division at bb%d is reachable with batch_size <= 1" % b, extra="halve")
    # spans_per_batch starts at a positive value and is only ever divided inside the loop (the division being guarded by
    # batch_size > 1, it stays >= 1: a batch of zero spans makes no progress and the loop never ends)
    div_blocks = {b for b, _ in div_info}
    other_defs = sorted(db for (db, i, st) in fn.defs(per_batch) if db in body and db not in div_blocks)
    ctx.check(not other_defs, "R2", TR, fn.loc(other_defs[0]) if other_defs else fn.span,
              "inside the send loop spans_per_batch is only ever divided by a constant (never assigned another value, which could be 0)",
              "definitions in the loop: %s" % sorted(div_blocks),
              "spans_per_batch is assigned at %s from something other than its own quotient: with the value 0 the window is empty, "
              "sent_spans does not advance and the call never returns" % [fn.loc(b) for b in other_defs], extra="per-batch")
    # ---------------------------------------------------------------- R3: the window encoded is the window counted
    rng = [(b, s) for b, blk in enumerate(fn.blocks) if b in body for s in blk["stmts"]
           if s["k"] == "assign" and s["rv"]["k"] == "agg" and s["rv"].get("adt", "").endswith("ops::range::Range")]
    okw = len(rng) == 1
    if okw:
        b, s = rng[0]
        st, en = s["rv"]["ops"]
        okw = st["k"] in ("copy", "move") and root_local(fn, st)[0] == sent
        sd = fn.single_def(root_local(fn, en)[0]) if en["k"] in ("copy", "move") else None
        rv = sd[2]["rv"] if sd and sd[1] != "term" and sd[2]["k"] == "assign" else None
        if rv and rv["k"] == "use":
            sd2 = fn.single_def(rv["op"]["l"])
            rv = sd2[2]["rv"] if sd2 and sd2[1] != "term" else None
        okw = okw and bool(rv) and rv["k"] == "binop" and rv["op"] in ("AddWithOverflow", "Add") and \
            {root_local(fn, rv["a"])[0], root_local(fn, rv["b"])[0]} == {sent, batch}
        cs = prov.of_operand(fn, fn.term(conv[0])["args"][1]) if conv else set()
        okw = okw and any(v[0] == "call" and re.search(r"Index(<.*>)?( for \[T\])?>?::index$", v[1]) for o in cs for v in o.via) and \
            has_origin(cs, kind="param", key=2)
    if slice_model:
        cs = prov.of_operand(fn, fn.term(conv[0])["args"][1]) if conv else set()
        sp2 = [v[2] for o in cs for v in o.via if v[0] == "call" and re.search(r"slice::<impl \[T\]>::split_at(_checked)?$", v[1])]
        okw = bool(sp2) and all(x in splits for x in sp2) and any(".0" in o.path for o in cs) and has_origin(cs, kind="param", key=2)
    ctx.check(okw, "R3", TR, fn.loc(rng[0][0]) if rng else fn.span,
              "the window converted is spans[sent_spans .. sent_spans + batch_size]", "", "range construction differs", extra="window")
    after_send = [(b, cv, isb) for b, cv, isb in inc_info if b in fn.reach([(S, fn.term(S)["target"])]) and S in fn.dominators().get(b, ())]
    ctx.check(len(after_send) == 1 and after_send[0][2], "R3", TR, fn.loc(after_send[0][0]) if after_send else fn.span,
              "after a successful send sent_spans advances by exactly the batch_size that was encoded", "",
              "increments dominated by the send: %s" % after_send, extra="advance")
    skips = [(b, cv, isb) for b, cv, isb in inc_info if not (S in fn.dominators().get(b, ()))]
    ok_skip = len(skips) == 1 and skips[0][1] == 1 and bool(le1_true) and fn.guarded([skips[0][0]], le1_true) and \
        fn.guarded([skips[0][0]], set(e for e in _over_edges(fn, edges)))
    ctx.check(ok_skip, "R3", TR, fn.loc(skips[0][0]) if skips else fn.span,
              "a span is skipped (sent_spans += 1 without sending) only when it alone exceeds the limit (batch_size <= 1 on the "
              "over-limit edge)", "", "skip increments: %s" % skips, extra="skip")
    # ---------------------------------------------------------------- R4: exits
    exits = set()
    for b in body:
        for d in fn.succs(b):
            if d not in body and fn.term(d)["k"] != "unreachable":
                exits.add((b, d))
    allowed = set()
    # the loop condition's false edge
    want_exit = {"Lt": False, "Le": False, "Gt": False, "Ge": False, "Ne": False, "IsEmpty": True}[cond["op"]]
    # the same test written as the exit condition: `if sent_spans >= spans.len() { return Ok(()) }` at the top of a `loop`
    inverted = (cond["op"] == "Ge" and cond_side == "a") or (cond["op"] == "Le" and cond_side == "b")
    if inverted:
        want_exit = True
    if cond["op"] == "IsEmpty" and cond.get("neg"):
        want_exit = not want_exit
    for a, d, _ in fn.switch_edges(header, want_exit):
        allowed.add((a, d))
    # error propagation through `?`
    for b in fn.calls_re(r"ops::try_trait::Try>?::branch$", cleanup=False):
        for sb in result_switches(fn, b):
            for a, d, _ in fn.variant_edges(sb, ["Break"]):
                r = fn.reach([(a, d)], avoid_blocks=[H])
                for x in r:
                    for dd in fn.succs(x):
                        if (x, dd) in exits:
                            allowed.add((x, dd))
                if (a, d) in exits:
                    allowed.add((a, d))
    extra = exits - allowed
    ctx.check(not extra and bool(exits), "R4", TR, fn.span,
              "the loop ends only when sent_spans reaches spans.len() (or an I/O / encoding error is propagated)",
              "exits %s" % sorted(exits), "other exits %s" % sorted(extra), extra="exits")
    ok_cond = (cond["op"] == "Lt" and cond_side == "a") or (cond["op"] == "Gt" and cond_side == "b") or cond["op"] == "IsEmpty" or inverted
    ctx.check(ok_cond, "R4", TR, fn.loc(header), "the loop continues exactly while sent_spans < spans.len()", "%s" % cond["op"],
              "condition is %s with the counter on side %s" % (cond["op"], cond_side), extra="cond")


def _over_edges(fn, ok_edges):
    """Complement edges of the limit switches (the over-limit side)."""
    out = set()
    for (a, d, lab) in ok_edges:
        for (dd, l2) in fn.edges(a):
            if (a, dd, l2) not in ok_edges:
                out.add((a, dd, l2))
    return out


def rule_fresh_buffer(ctx, facts, rule):
    """Every datagram is encoded into a buffer created for that attempt: the buffer whose length is tested and which is
    sent is (re)defined inside the loop body, so a rejected (oversize) encoding cannot leak into the next attempt."""
    prov = Prov(facts)
    fn = facts.fn(TR)
    if fn is None:
        ctx.fail(rule, TR, "-", "anchor exists", "anchor lost", extra="fresh")
        return
    sends = fn.calls_re(r"std::net::udp::UdpSocket::send_to$|UdpSocket::send$", cleanup=False)
    if not sends:
        ctx.fail(rule, TR, fn.span, "a send site exists", "none", extra="fresh")
        return
    S = sends[0]
    buf = root_local(fn, fn.term(S)["args"][1])[0]
    defs = [d for d in fn.defs(buf) if not (d[2].get("lhs") or d[2].get("dest"))["p"]]
    in_loop = bool(defs) and all(fn.on_cycle(d[0]) for d in defs)
    grows = [b for b in fn.calls() if not fn.blocks[b]["cleanup"] and fn.term(b)["args"] and fn.term(b)["k"] == "call"
             and any(a["k"] in ("copy", "move") and root_local(fn, a)[0] == buf and i > 0 for i, a in enumerate(fn.term(b)["args"]))
             and re.search(r"JaegerReporter::serialize$|compact_encode$|extend\w*$|Write>?::write\w*$", fn.term(b)["callee"])]
    ctx.check(in_loop and not grows, rule, TR, fn.loc(S),
              "the byte buffer that is measured and sent is produced anew on every loop iteration (not appended to across attempts)",
              "buffer _%d defined at %s" % (buf, [fn.loc(d[0]) for d in defs]),
              "buffer _%d is defined outside the loop / appended to by %s: an oversize encoding stays in it and poisons the "
              "following attempts" % (buf, [fn.term(b)["callee"] for b in grows]), extra="fresh-buffer")
