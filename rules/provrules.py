"""Provenance rules (P5 + P10): which source field every id / time / attachment field is built from.
Used by C02, C05, C06, C11, C17, C18."""
import re

from .core import (transparent_args, Prov, bool_cond_edges, callee_is, const_value, constructions, discr_cond_edges, has_origin, origin_strs, selection_blocks,
                   result_switches, root_local, sites_star, first_switches)

TOKEN_ITEM = "fastrace::collector::CollectTokenItem"
SPAN_COLLECTION = "fastrace::collector::global_collector::SpanCollection"
SPAN_RECORD = "fastrace::collector::SpanRecord"
EVENT_RECORD = "fastrace::collector::EventRecord"
SPAN_CONTEXT = "fastrace::collector::id::SpanContext"
RAW_SPAN = "fastrace::local::raw_span::RawSpan"
AMENDS = ("fastrace::collector::global_collector::amend_span", "fastrace::collector::global_collector::amend_local_span")
EXCLUDE = re.compile(r"^fastrace::util::tree|^<fastrace::util::tree| as core::(default::Default|clone::Clone)>::")


def sig(o):
    return (o.kind, o.key, o.path)


def data_origins(origins):
    """Origins that carry data (drop constants of helper closures / fn items)."""
    return {o for o in origins if not (o.kind == "const" and str(o.key).startswith("fn:"))}


def suffix_is(o, *suffix):
    return tuple(o.path[-len(suffix):]) == tuple(suffix)


def expect(ctx, rule, fn, site, what, origins, need, forbid=(), extra=None, why=""):
    """need: list of (description, predicate over one origin) that must each be matched by some origin;
    forbid: list of (description, predicate) no origin may match."""
    origins = data_origins(origins)
    missing = [d for d, p in need if not any(p(o) for o in origins)]
    bad = [d for d, p in forbid if any(p(o) for o in origins)]
    ctx.check(not missing and not bad, rule, fn.path, site, what,
              "origins %s" % origin_strs(origins, 6),
              "%s%s; origins found: %s%s" % (
                  "missing: %s" % missing if missing else "", " forbidden: %s" % bad if bad else "",
                  origin_strs(origins, 8), (" -- " + why) if why else ""), extra=extra)


# ------------------------------------------------------------------------------------------------ C02

def rule_token_items(ctx, facts, rule, fields=("trace_id", "parent_id", "collect_id", "is_sampled")):
    """C02-R1 / C05-R5: every CollectTokenItem is derived from one source item (or, in Span::root, from the context)."""
    prov = Prov(facts)
    cons = [c for c in constructions(facts, TOKEN_ITEM, crates=["fastrace"]) if not EXCLUDE.search(c[0].path)]
    ctx.floor(rule, TOKEN_ITEM, len(cons), 3, "constructions of CollectTokenItem")
    for fn, b, s, f in cons:
        # values computed before a `.map(|item| ..)` and captured by it keep their source
        o = {k: data_origins(prov.resolve_upvars(fn, prov.of_operand(fn, v)) if fn.kind == "Closure" else prov.resolve_self_fields(fn, prov.of_operand(fn, v)))
             for k, v in f.items()}
        site = fn.loc(b)
        if fn.path == "fastrace::span::Span::root":
            if "trace_id" in fields:
                expect(ctx, rule, fn, site, "root token: trace_id <- SpanContext.trace_id", o["trace_id"],
                       [("param parent.trace_id", lambda x: x.kind == "param" and x.key == 2 and x.path == (".trace_id",))],
                       [("anything else", lambda x: not (x.kind == "param" and x.key == 2 and x.path == (".trace_id",)))],
                       extra="root.trace_id")
            if "parent_id" in fields:
                expect(ctx, rule, fn, site, "root token: parent_id <- SpanContext.span_id (the remote parent)", o["parent_id"],
                       [("param parent.span_id", lambda x: x.kind == "param" and x.key == 2 and x.path == (".span_id",))],
                       [("anything else", lambda x: not (x.kind == "param" and x.key == 2 and x.path == (".span_id",)))],
                       extra="root.parent_id", why="a root without its remote parent id detaches the trace from its caller")
            if "is_sampled" in fields:
                expect(ctx, rule, fn, site, "root token: is_sampled <- SpanContext.sampled", o["is_sampled"],
                       [("param parent.sampled", lambda x: x.kind == "param" and x.key == 2 and x.path == (".sampled",))],
                       [("anything else", lambda x: not (x.kind == "param" and x.key == 2 and x.path == (".sampled",)))],
                       extra="root.is_sampled")
            if "collect_id" in fields:
                expect(ctx, rule, fn, site, "root token: collect_id <- start_collect() or NOT_SAMPLED_COLLECT_ID", o["collect_id"],
                       [("start_collect result", lambda x: any(v[0] == "call" and v[1].endswith("GlobalCollect::start_collect") for v in x.via)),
                        ("NOT_SAMPLED_COLLECT_ID", lambda x: x.kind == "const" and "NOT_SAMPLED_COLLECT_ID" in str(x.key))],
                       extra="root.collect_id")
            continue
        # derived token: one source item
        def base(x):
            return (x.kind, x.key, x.path[:-1])
        tb = {base(x) for x in o["trace_id"] if suffix_is(x, ".trace_id")}
        key = fn.path.rsplit("::", 2)[-2] if "{closure" in fn.path else fn.path.rsplit("::", 1)[-1]
        same = True
        for fld in ("trace_id", "collect_id", "is_sampled"):
            if fld not in fields:
                continue
            srcs = o[fld]
            good = all(suffix_is(x, "." + fld) and base(x) in tb for x in srcs) and bool(srcs) and len(tb) == 1
            same = same and good
            ctx.check(good, rule, fn.path, site,
                      "derived token: %s is copied from the source item's %s (same item as trace_id)" % (fld, fld),
                      "origins %s" % origin_strs(srcs), "origins %s, source item(s) %s" % (origin_strs(srcs), sorted(tb)),
                      extra="derived.%s" % fld)
        if "parent_id" in fields:
            srcs = o["parent_id"]
            from_span = all(suffix_is(x, ".raw_span", ".id") for x in srcs) and bool(srcs)
            from_scope = any(suffix_is(x, ".next_parent_id") for x in srcs) and \
                all(suffix_is(x, ".next_parent_id") or (suffix_is(x, ".parent_id") and base(x) in tb) for x in srcs)
            ctx.check(from_span or from_scope, rule, fn.path, site,
                      "derived token: parent_id is the issuing span's own id, or the scope's innermost open local span "
                      "falling back to the source item's parent_id",
                      "span-issued" if from_span else "scope-issued", "origins %s" % origin_strs(srcs), extra="derived.parent_id")


def rule_span_collections(ctx, facts, rule):
    """C02-R2: a span collection carries the ids of the token item that selected its collector."""
    prov = Prov(facts)
    cons = [c for c in constructions(facts, SPAN_COLLECTION, crates=["fastrace"]) if not EXCLUDE.search(c[0].path)]
    ctx.floor(rule, SPAN_COLLECTION, len(cons), 2, "constructions of SpanCollection (one per variant at least)")
    have = {c[2]["rv"]["variant"] for c in cons}
    ctx.check({"Owned", "Shared"} <= have, rule, SPAN_COLLECTION, "-", "both SpanCollection variants are constructed", "%s" % sorted(have),
              "variants constructed: %s" % sorted(have), extra="variants")
    n = 0
    hc_view = None
    for fn, b, s, f in cons:
        n += 1
        if fn.path == "fastrace::collector::global_collector::GlobalCollector::handle_commands":
            # the view with local helpers and local closures spliced in keeps the block numbers of the original body
            if hc_view is None:
                from .collector import Collector
                hc_view = Collector(ctx, facts).fn
            if hc_view is not None and b < len(hc_view.blocks) and len(hc_view.blocks[b]["stmts"]) >= len(fn.blocks[b]["stmts"]):
                fn = hc_view
        lt, ft = root_local(fn, f["trace_id"])
        lp, fp = root_local(fn, f["parent_id"])
        all_gets = [x for x in fn.calls_re(r"HashMap::<K, V, S, A>::(get_mut|get|contains_key|entry)$", cleanup=False)
                    if "ActiveCollector" in fn.term(x)["arg_tys"][0]]
        gets = [x for x in all_gets if fn.dominates(x, b)]
        # the closest dominating lookup
        gets.sort(key=lambda x: len(fn.dominators()[x]))
        key_ok = False
        detail = "no dominating lookup in active_collectors"
        if gets:
            lk, fk = root_local(fn, fn.term(gets[-1])["args"][1])
            key_ok = (lk == lt and fk[-1:] == (".collect_id",))
            detail = "lookup key root _%d%s" % (lk, "".join(fk))
        else:
            # built first, routed afterwards (`let set = SpanCollection::..{..}; deliver(item.collect_id, set)`): the lookups reached
            # first from the construction must all be keyed by the same item
            nxt = [x for x in all_gets if x in fn.reach([b], avoid_blocks=[y for y in all_gets if y != x])]
            if nxt:
                keys = [root_local(fn, fn.term(x)["args"][1]) for x in nxt]
                key_ok = all(lk == lt and fk[-1:] == (".collect_id",) for lk, fk in keys)
                detail = "following lookup key roots %s" % ["_%d%s" % (lk, "".join(fk)) for lk, fk in keys]
        ok = lt == lp and ft[-1:] == (".trace_id",) and fp[-1:] == (".parent_id",) and key_ok
        ctx.check(ok, rule, fn.path, fn.loc(b),
                  "SpanCollection::%s: trace_id and parent_id come from the token item whose collect_id selected the collector" % s["rv"]["variant"],
                  "item _%d; %s" % (lt, detail),
                  "trace_id from _%d%s, parent_id from _%d%s, %s" % (lt, "".join(ft), lp, "".join(fp), detail),
                  extra="%s#%d" % (s["rv"]["variant"], n))


def rule_span_records(ctx, facts, rule):
    """C02-R3: records get the collection's trace id, their own span id, and the right parent."""
    prov = Prov(facts)
    cons = [c for c in constructions(facts, SPAN_RECORD, crates=["fastrace"]) if c[0].path in AMENDS]
    ctx.floor(rule, SPAN_RECORD, len(cons), 2, "constructions of SpanRecord in amend_*")
    for fn, b, s, f in cons:
        local = fn.path.endswith("amend_local_span")
        o = {k: data_origins(prov.of_operand(fn, v)) for k, v in f.items()}
        nm = fn.path.rsplit("::", 1)[1]
        expect(ctx, rule, fn, fn.loc(b), "%s: record.trace_id <- the trace_id parameter" % nm, o["trace_id"],
               [("param trace_id", lambda x: sig(x) == ("param", 2, ()))],
               [("anything else", lambda x: sig(x) != ("param", 2, ()))], extra="trace_id")
        expect(ctx, rule, fn, fn.loc(b), "%s: record.span_id <- the raw span's own id" % nm, o["span_id"],
               [("RawSpan.id", lambda x: x.kind == "param" and x.key == 1 and suffix_is(x, ".id"))],
               [("RawSpan.parent_id / parameter", lambda x: suffix_is(x, ".parent_id") or (x.kind == "param" and x.key in (2, 3)))],
               extra="span_id", why="span_id and parent_id have the same type; the compiler cannot tell them apart")
        if local:
            expect(ctx, rule, fn, fn.loc(b), "%s: record.parent_id <- RawSpan.parent_id or, for set roots, the parent_id parameter" % nm,
                   o["parent_id"],
                   [("param parent_id", lambda x: sig(x) == ("param", 3, ())),
                    ("RawSpan.parent_id", lambda x: x.kind == "param" and x.key == 1 and suffix_is(x, ".parent_id"))],
                   [("RawSpan.id", lambda x: suffix_is(x, ".id"))], extra="parent_id")
            # the parameter is chosen exactly on the `parent_id == SpanId::default()` edge
            pl = root_local(fn, f["parent_id"])[0]
            defs = fn.defs(pl)

            def is_default_cmp(x):
                return any(v[0] == "call" and re.search(r"PartialEq(<.*>)?>?::eq$", v[1]) for v in x.via) and \
                    (suffix_is(x, ".parent_id") or "Default>::default" in str(x.key))
            eq_true = bool_cond_edges(fn, prov, is_default_cmp, True)
            eq_false = bool_cond_edges(fn, prov, is_default_cmp, False)
            ok = True
            seen = set()
            for (db, i, st) in defs:
                if i == "term" or st["k"] != "assign":
                    continue
                src = data_origins(prov._of_rvalue(fn, db, st["rv"], (), 0, set()))
                if any(sig(x) == ("param", 3, ()) for x in src):
                    seen.add("param")
                    ok = ok and bool(eq_true) and fn.guarded([db], eq_true)
                if any(suffix_is(x, ".parent_id") and x.key == 1 for x in src):
                    seen.add("own")
                    ok = ok and bool(eq_false) and fn.guarded([db], eq_false)
            ctx.check(ok and seen == {"param", "own"}, rule, fn.path, fn.loc(b),
                      "the collection's parent is substituted exactly for spans whose stored parent is SpanId::default() (set roots)",
                      "", "definitions of the parent local: %s; guarded by the ==default edges: %s" % (sorted(seen), ok), extra="parent-choice")
        else:
            expect(ctx, rule, fn, fn.loc(b), "%s: record.parent_id <- the parent_id parameter" % nm, o["parent_id"],
                   [("param parent_id", lambda x: sig(x) == ("param", 3, ()))],
                   [("anything else", lambda x: sig(x) != ("param", 3, ()))], extra="parent_id")
    # postprocess passes each collection's own pair
    pp = facts.fn("fastrace::collector::global_collector::postprocess_span_collection")
    if pp is None:
        ctx.fail(rule, "postprocess_span_collection", "-", "anchor exists", "anchor lost", extra="pp")
        return
    calls = [b for b in pp.calls(lambda t: t["callee"] in AMENDS) if not pp.blocks[b]["cleanup"]]
    kinds = {pp.term(b)["callee"].rsplit("::", 1)[1] for b in calls}
    ctx.check(kinds == {"amend_span", "amend_local_span"}, rule, pp.path, pp.span, "postprocess_span_collection converts span sets with amend_span and "
              "local-span sets with amend_local_span", "%d calls" % len(calls), "amend_* callees found: %s" % sorted(kinds), extra="floor")

    def elem(o, cut):
        """Which element of the collection list (and which variant of it) a value was read from."""
        nexts = tuple(v[2] for v in o.via if v[0] == "call" and v[1].endswith("::next"))
        pre = tuple(o.path[:o.path.index(cut)]) if cut in o.path else None
        return (o.kind, o.key, nexts, pre)
    for i, b in enumerate(calls):
        t = pp.term(b)
        a0 = data_origins(prov.of_operand(pp, t["args"][0]))
        a1 = data_origins(prov.of_operand(pp, t["args"][1]))
        a2 = data_origins(prov.of_operand(pp, t["args"][2]))
        e0 = {elem(o, ".spans") for o in a0}
        e1 = {elem(o, ".trace_id") for o in a1}
        e2 = {elem(o, ".parent_id") for o in a2}
        ok = bool(a0) and bool(a1) and bool(a2) and \
            all(o.kind == "param" and o.key == 1 and ".spans" in o.path for o in a0) and \
            all(o.kind == "param" and o.key == 1 and o.path[-1:] == (".trace_id",) for o in a1) and \
            all(o.kind == "param" and o.key == 1 and o.path[-1:] == (".parent_id",) for o in a2) and e1 == e2 and e0 <= e1
        ctx.check(ok, rule, pp.path, pp.loc(b),
                  "amend_* receives the trace_id and parent_id of the collection whose span set it converts",
                  "all three from the same element %s" % sorted(str(x[3]) for x in e1),
                  "span set from %s, trace_id from %s, parent_id from %s" % (origin_strs(a0), origin_strs(a1), origin_strs(a2)), extra="amend-args#%d" % i)


def rule_scope_parent(ctx, facts, rule):
    """C02-R4: the scope's innermost-open-span tracking."""
    prov = Prov(facts)
    SQ = "fastrace::local::span_queue::SpanQueue::"
    fn = ctx.need_fn(facts, SQ + "start_span", rule)
    if fn is not None:
        bw = fn.calls_re(r"RawSpan::begin_with$", cleanup=False)
        if bw:
            t = fn.term(bw[0])
            expect(ctx, rule, fn, fn.loc(bw[0]), "start_span: the new span's parent is the scope's innermost open span (next_parent_id)",
                   prov.of_operand(fn, t["args"][1]),
                   [("self.next_parent_id", lambda x: x.kind == "param" and x.key == 1 and suffix_is(x, ".next_parent_id"))],
                   [("span_queue element", lambda x: ".span_queue" in x.path)], extra="start.parent")
            expect(ctx, rule, fn, fn.loc(bw[0]), "start_span: the new span's id is freshly generated", prov.of_operand(fn, t["args"][0]),
                   [("SpanId::next_id()", lambda x: any(v[0] == "call" and v[1].endswith("SpanId::next_id") for v in x.via))],
                   [("a value not produced by next_id()", lambda x: not any(v[0] == "call" and v[1].endswith("SpanId::next_id") for v in x.via))],
                   extra="start.id")
        else:
            ctx.fail(rule, fn.path, fn.span, "start_span builds the span with RawSpan::begin_with", "anchor lost", extra="start.parent")
        # next_parent_id <- Some(new span's id)
        assigns = [(b, s) for b, blk in enumerate(fn.blocks) for s in blk["stmts"]
                   if s["k"] == "assign" and s["lhs"]["l"] == 1 and ".next_parent_id" in s["lhs"]["p"]]
        ok = bool(assigns)
        for b, s in assigns:
            src = data_origins(prov._of_rvalue(fn, b, s["rv"], (), 0, set()))
            # Some(span.id) read back from the span just built, or the id local it was built with: the fresh id either way
            ok = ok and bool(src) and all(any(v[0] == "call" and v[1].endswith("SpanId::next_id") for v in x.via) or
                                          (x.kind == "call" and str(x.key).endswith("SpanId::next_id")) for x in src)
        ctx.check(ok, rule, fn.path, fn.span, "start_span: next_parent_id becomes the new span's id", "", "assignments: %d" % len(assigns),
                  extra="start.next")

        def full(o):
            return any(v[0] == "binop" and v[1] in ("Ge", "Gt", "Lt", "Le") for v in o.via) and \
                (suffix_is(o, ".capacity") or any(v[0] == "call" and v[1].endswith("::len") for v in o.via))
        full_edges = bool_cond_edges(fn, prov, lambda o: full(o) and any(v[1] in ("Ge", "Gt") for v in o.via if v[0] == "binop"), True) | \
            bool_cond_edges(fn, prov, lambda o: full(o) and any(v[1] in ("Lt", "Le") for v in o.via if v[0] == "binop"), False)
        r = set()
        for a, d, _ in full_edges:
            r |= fn.reach([(a, d)])
        ctx.check(bool(full_edges) and not (r & {b for b, _ in assigns}) and not (r & set(bw)), rule, fn.path, fn.span,
                  "start_span: on the capacity-exceeded edge nothing is recorded and next_parent_id is untouched", "",
                  "full edges %s reach the parent update" % sorted((a, d) for a, d, _ in full_edges), extra="start.full")
    fn = ctx.need_fn(facts, SQ + "finish_span", rule)
    if fn is not None:
        assigns = [(b, s) for b, blk in enumerate(fn.blocks) for s in blk["stmts"]
                   if s["k"] == "assign" and s["lhs"]["l"] == 1 and ".next_parent_id" in s["lhs"]["p"]]
        ok = bool(assigns)
        detail = ""
        for b, s in assigns:
            src = data_origins(prov._of_rvalue(fn, b, s["rv"], (), 0, set()))
            detail = str(origin_strs(src))
            stored = [x for x in src if suffix_is(x, ".span_queue", ".parent_id")]
            rest = [x for x in src if x not in stored and not (x.kind == "const" and str(x.key).startswith("fn:"))]
            by_filter = any(v[0] == "call" and v[1].endswith("Option::<T>::filter") for x in src for v in x.via)

            def is_root_cmp(o):
                return suffix_is(o, ".parent_id") and any(v[0] == "call" and re.search(r"PartialEq(<.*>)?>?::(eq|ne)$", v[1]) for v in o.via)
            by_branch = all(x.kind == "agg" and str(x.key).endswith("Option::None") for x in rest) and bool(rest) and \
                bool(bool_cond_edges(fn, prov, is_root_cmp, True) | bool_cond_edges(fn, prov, is_root_cmp, False))
            ok = ok and bool(stored) and (by_filter or by_branch) and not any(suffix_is(x, ".id") for x in src)
        ctx.check(ok, rule, fn.path, fn.span,
                  "finish_span: next_parent_id is restored to the finished span's stored parent (None when it was the scope's root)",
                  detail, "origins %s" % detail, extra="finish.restore")
        idx = [b for b in fn.calls_re(r"IndexMut(<.*>)?>?::index_mut$", cleanup=False)]
        okh = bool(idx) and all(has_origin(prov.of_operand(fn, fn.term(b)["args"][1]), kind="param", key=2, path_suffix=(".index",)) for b in idx)
        ctx.check(okh, rule, fn.path, fn.span, "finish_span: the span finished is the one the handle indexes", "", "index origins differ", extra="finish.handle")


# ------------------------------------------------------------------------------------------------ C05

def rule_root_sampling(ctx, facts, rule):
    prov = Prov(facts)
    fn = ctx.need_fn(facts, "fastrace::span::Span::root", rule)
    if fn is None:
        return
    starts = sites_star(facts, fn, lambda g, t: t["callee"].endswith("GlobalCollect::start_collect"))
    samp = bool_cond_edges(fn, prov, lambda o: o.kind == "param" and o.key == 2 and o.path == (".sampled",), True)
    ctx.check(bool(starts) and bool(samp) and fn.guarded(starts, samp), rule, fn.path, fn.loc(starts[0]) if starts else fn.span,
              "Span::root starts a collection only for a sampled context", "guard %s" % sorted((a, b) for a, b, _ in samp),
              "start_collect reachable with parent.sampled == false", extra="start")


def rule_choke_point(ctx, facts, rule):
    prov = Prov(facts)
    cons = constructions(facts, "fastrace::collector::command::CollectCommand", "SubmitSpans", crates=["fastrace"])
    where = sorted({c[0].path for c in cons})
    ctx.check(where == ["fastrace::collector::global_collector::GlobalCollect::submit_spans"], rule,
              "fastrace::collector::command::CollectCommand", "-",
              "SubmitSpans commands are built at a single choke point (GlobalCollect::submit_spans)", "",
              "constructed in %s" % where, extra="single")
    fn = ctx.need_fn(facts, "fastrace::collector::global_collector::GlobalCollect::submit_spans", rule)
    if fn is None:
        return
    sends = sites_star(facts, fn, lambda g, t: callee_is(t, r"global_collector::(send_command|force_send_command)$"))
    rets = [b for b in fn.calls_re(r"alloc::vec::Vec::<T, A>::(retain|retain_mut)$", cleanup=False)]
    ok = False
    detail = "no retain"
    for b in rets:
        t = fn.term(b)
        tok = has_origin(prov.of_operand(fn, t["args"][0]), kind="param", key=3)
        cd = prov._closure_def(fn, t["args"][1])
        if not (tok and cd):
            continue
        cf = cd[0]
        ret = data_origins(prov.of_local(cf, 0))
        keeps_sampled = bool(ret) and all(x.kind == "param" and x.key == 2 and x.path == (".is_sampled",) and
                                          not any(v[0] == "unop" for v in x.via) for x in ret)
        dom = all(fn.dominates(b, s) for s in sends)
        ok = keeps_sampled and dom and bool(sends)
        detail = "retain closure returns %s; dominates send: %s" % (origin_strs(ret), dom)
    if not ok:
        # the same filter written as an iterator pipeline: collect_token.into_iter().filter(|item| item.is_sampled).collect()
        sub = constructions(facts, "fastrace::collector::command::SubmitSpans", crates=["fastrace"])
        for b in fn.calls_re(r"iter::traits::iterator::Iterator::filter$", cleanup=False):
            t = fn.term(b)
            tok = has_origin(prov.of_operand(fn, t["args"][0]), kind="param", key=3)
            cd = prov._closure_def(fn, t["args"][1])
            if not (tok and cd):
                continue
            ret = data_origins(prov.of_local(cd[0], 0))
            keeps_sampled = bool(ret) and all(x.kind == "param" and x.key == 2 and x.path == (".is_sampled",) and
                                              not any(v[0] == "unop" for v in x.via) for x in ret)
            dom = all(fn.dominates(b, s_) for s_ in sends)
            carried = bool(sub) and all(any(v[0] == "call" and v[2] == b for o in prov.of_operand(fnc, f["collect_token"]) for v in o.via)
                                        for fnc, _b, _s, f in sub if fnc is fn or fnc.path == fn.path)
            ok = keeps_sampled and dom and bool(sends) and carried
            detail = "filter closure returns %s; dominates send: %s; the command carries the filtered items: %s" % (origin_strs(ret), dom, carried)
    ctx.check(ok, rule, fn.path, fn.span,
              "before anything is sent the token is filtered to its sampled items (retain(|item| item.is_sampled))", detail, detail,
              extra="filter")
    # the command carries the filtered token
    for fnc, b, s, f in cons:
        inner = root_local(fnc, f.get("0", {"l": -1, "p": [], "k": "copy"}))[0] if "0" in f else None
    sub = constructions(facts, "fastrace::collector::command::SubmitSpans", crates=["fastrace"])
    for fnc, b, s, f in sub:
        expect(ctx, rule, fnc, fnc.loc(b), "the command carries the filtered token and the submitted set",
               prov.of_operand(fnc, f["collect_token"]), [("param collect_token", lambda x: x.kind == "param" and x.key == 3)],
               [("param spans", lambda x: x.kind == "param" and x.key == 2)], extra="payload")


def rule_scope_sampling(ctx, facts, rule):
    """C05-R3: a scope records iff any of its token items is sampled (or it has no token)."""
    prov = Prov(facts)
    cons = constructions(facts, "fastrace::local::local_span_line::SpanLine", crates=["fastrace"])
    ctx.floor(rule, "fastrace::local::local_span_line::SpanLine", len(cons), 1, "constructions of SpanLine")
    for fn, b, s, f in cons:
        src = data_origins(prov.of_operand(fn, f["is_sampled"]))
        existential = [x for x in src if suffix_is(x, ".is_sampled")]
        ok_any = bool(existential) and all(
            any(v[0] == "call" and re.search(r"Iterator>?::any$", v[1]) for v in x.via) and
            not any(v[0] == "call" and re.search(r"Iterator>?::all$", v[1]) for v in x.via) and
            sum(1 for v in x.via if v[0] == "unop" and v[1] == "Not") % 2 == 0
            for x in existential)
        ok_all_neg = bool(existential) and all(
            any(v[0] == "call" and re.search(r"Iterator>?::all$", v[1]) for v in x.via) and
            sum(1 for v in x.via if v[0] == "unop" and v[1] == "Not") == 2 for x in existential)
        ok_find = bool(existential) and all(
            any(v[0] == "call" and re.search(r"Iterator>?::(find|position)$", v[1]) for v in x.via) and
            any(v[0] == "call" and re.search(r"Option::<T>::is_some$", v[1]) for v in x.via) for x in existential)
        has_true = any(x.kind == "const" and str(x.key) == "true" for x in src)
        # the same fold written as a loop: `let mut s = false; for item in token { if item.is_sampled { s = true; break; } }`
        ok_loop = False
        if not (ok_any or ok_all_neg or ok_find) and f["is_sampled"]["k"] in ("copy", "move"):
            seen, work, defs = set(), [root_local(fn, f["is_sampled"])[0]], []
            while work:
                l = work.pop()
                if l in seen:
                    continue
                seen.add(l)
                for (db, i, st) in fn.defs(l):
                    if i == "term" and re.search(r"Option::<T>::is_none$", st["callee"]):
                        defs.append((db, 0))       # `token.is_none()`: false exactly when there is a token to fold over
                    if i != "term" and st["k"] == "assign" and st["rv"]["k"] == "use":
                        o = st["rv"]["op"]
                        if o["k"] == "const" and isinstance(o.get("v"), (int, bool)):
                            defs.append((db, int(o["v"])))
                        elif o["k"] in ("copy", "move") and not o["p"]:
                            work.append(o["l"])
            sampled_true = bool_cond_edges(fn, prov, lambda x: suffix_is(x, ".is_sampled"), True)
            in_loop_true = [db for db, v in defs if v == 1 and fn.on_cycle(db) or (v == 1 and sampled_true and fn.guarded([db], sampled_true))]
            resets = [db for db, v in defs if v == 0 and fn.on_cycle(db)]
            ok_loop = bool(in_loop_true) and bool(sampled_true) and all(fn.guarded([db], sampled_true) for db in in_loop_true) and not resets \
                and any(v == 0 for _, v in defs)
        ctx.check((ok_any or ok_all_neg or ok_find or ok_loop) and has_true, rule, fn.path, fn.loc(b),
                  "SpanLine.is_sampled is an existential fold over the token items' is_sampled (true without a token)",
                  "origins %s" % origin_strs(src),
                  "accepted idioms: Iterator::any, !Iterator::all(!..), find(..).is_some(); found %s via %s" % (
                      origin_strs(src), sorted({v[1].rsplit('::', 1)[-1] for x in existential for v in x.via if v[0] == 'call'})),
                  extra="any")


def rule_scope_entries_check(ctx, facts, rule):
    """C05-R4: every recording entry of a scope checks is_sampled."""
    from .invokes import Invokes
    prov = Prov(facts)
    inv = Invokes(facts, prov)
    n = 0
    for name in ("start_span", "add_event", "add_properties", "with_properties"):
        fn = ctx.need_fn(facts, "fastrace::local::local_span_line::SpanLine::" + name, rule)
        if fn is None:
            continue
        n += 1
        samp = bool_cond_edges(fn, prov, lambda o: o.kind == "param" and o.key == 1 and o.path == (".is_sampled",), True)
        qcalls = [b for b in fn.calls_re(r"span_queue::SpanQueue::\w+$", cleanup=False)]
        user = [b for b, _ in inv.user_sites(fn, [b for b in range(len(fn.blocks)) if not fn.blocks[b]["cleanup"]])]
        sites = sorted(set(qcalls) | set(user))
        ctx.check(bool(sites) and bool(samp) and fn.guarded(sites, samp), rule, fn.path, fn.span,
                  "SpanLine::%s touches the span queue / evaluates the closure only when the scope is sampled" % name,
                  "sites %s guarded by %s" % (sites, sorted((a, b) for a, b, _ in samp)),
                  "sites %s reachable with is_sampled == false" % sites, extra="sampled")
    ctx.floor(rule, "fastrace::local::local_span_line::SpanLine", n, 4, "recording entries of SpanLine")


def rule_context_copies(ctx, facts, rule, fields=("trace_id", "span_id", "sampled")):
    """C05-R5 / C11: SpanContext extracted from a span / the local parent."""
    prov = Prov(facts)
    for p in ("fastrace::collector::id::SpanContext::from_span", "fastrace::collector::id::SpanContext::current_local_parent"):
        fn = ctx.need_fn(facts, p, rule)
        if fn is None:
            continue
        bodies = [fn] + facts.closures_of(fn)
        cons = [c for c in constructions(facts, SPAN_CONTEXT, crates=["fastrace"]) if any(c[0] is g for g in bodies)]
        if len(cons) != 1:
            ctx.fail(rule, p, fn.span, "exactly one SpanContext construction", "found %d" % len(cons), extra="cons")
            continue
        host, b, s, f = cons[0]
        nm = p.rsplit("::", 1)[1]
        want = {"trace_id": ".trace_id", "sampled": ".is_sampled",
                "span_id": ".id" if nm == "from_span" else ".parent_id"}
        for fld in fields:
            src = prov.of_operand(host, f[fld])
            if host is not fn:
                src = prov.lift_closure_origins(host, src)     # built inside `.map(|item| ..)`: item is what the Option holds
            src = data_origins(src)
            src = {x for x in src if x.path}     # drop plumbing (promoted consts, fn items)
            suff = want[fld]
            if nm == "from_span" and fld == "span_id":
                good = bool(src) and all(suffix_is(x, ".raw_span", ".id") for x in src)
            else:
                # origins that name no field of a token item are container plumbing (the stored token as a whole feeding a
                # capacity, an iterator): what matters is which item FIELD the value is read from
                ITEM_FIELDS = (".trace_id", ".parent_id", ".collect_id", ".is_root", ".is_sampled", ".id", ".span_id", ".sampled")
                named = [x for x in src if x.path[-1] in ITEM_FIELDS]
                good = bool(named) and all(suffix_is(x, suff) for x in named)
            ctx.check(good, rule, p, host.loc(b), "%s: SpanContext.%s <- %s" % (nm, fld, "the span's own id" if suff == ".id" else "the first token item's " + suff[1:]),
                      "origins %s" % origin_strs(src), "origins %s" % origin_strs(src), extra=fld)


# ------------------------------------------------------------------------------------------------ C11 extras

def rule_first_item(ctx, facts, rule):
    prov = Prov(facts)
    for p in ("fastrace::collector::id::SpanContext::from_span", "fastrace::collector::id::SpanContext::current_local_parent"):
        fn = facts.fn(p)
        if fn is None:
            continue
        bodies = [fn] + facts.closures_of(fn)
        cons = [c for c in constructions(facts, SPAN_CONTEXT, crates=["fastrace"]) if any(c[0] is g for g in bodies)]
        if not cons:
            ctx.fail(rule, p, fn.span, "the context is built from a token item", "anchor lost: no SpanContext construction in %s" % p, extra="first")
            continue
        host, b, s, f = cons[0]
        src = prov.of_operand(host, f["trace_id"])
        if host is not fn:
            src = prov.lift_closure_origins(host, src)
        calls = {v[1] for x in src for v in x.via if v[0] == "call"}
        first = any(re.search(r"Iterator>?::next$|slice::<impl \[T\]>::first$|Vec::<T, A>::first$", c) for c in calls)
        idx0 = False
        for x in src:
            for v in x.via:
                if v[0] == "call" and re.search(r"Index(<.*>)?>?::index$", v[1]):
                    hb = host if (v[2] < len(host.blocks) and host.blocks[v[2]]["term"].get("callee") == v[1]) else fn
                    if v[2] >= len(hb.blocks):
                        continue
                    t = hb.term(v[2])
                    idx0 = idx0 or (len(t["args"]) > 1 and t["args"][1]["k"] == "const" and t["args"][1].get("v") == 0)
        other = [c for c in calls if re.search(r"Iterator>?::(last|nth|rev|skip|max\w*|min\w*)$|slice::<impl \[T\]>::last$|Vec::<T, A>::(pop|last)$", c)]
        # a slice pattern `[first, ..]`: the element is the constant-index projection [0] (from the front) of the token
        pats = [pl for g in bodies for blk in g.blocks if not blk["cleanup"] for st in blk["stmts"] if st["k"] == "assign"
                for pl in ([st["rv"]["place"]] if st["rv"]["k"] == "ref" else [st["rv"]["op"]] if st["rv"]["k"] == "use" and st["rv"]["op"]["k"] in ("copy", "move") else [])
                if any(re.fullmatch(r"\[-?\d+( of \d+)?\]", str(e)) for e in pl["p"])]
        if pats:
            idx0 = idx0 or all(all(str(e) in ("[0]",) or not re.fullmatch(r"\[-?\d+( of \d+)?\]", str(e)) for e in pl["p"]) for pl in pats)
            if not all(all(str(e) in ("[0]",) or not re.fullmatch(r"\[-?\d+( of \d+)?\]", str(e)) for e in pl["p"]) for pl in pats):
                other = other + ["constant index other than [0]"]
        ctx.check((first or idx0) and not other, rule, p, host.loc(b),
                  "for a span with several parents the first token item is used (accepted: Iterator::next on a fresh iterator, "
                  "slice::first, index 0)", "via %s" % sorted(c.rsplit('::', 1)[-1] for c in calls)[:8],
                  "item selected through %s" % sorted(calls), extra="first")
        # None results: every partial step leaves through `?`
        from . import panics as _panics
        inv = _panics.Inventory(ctx, facts)
        unsafe_steps = []
        n_steps = 0
        for g in bodies:
            n_steps += len(g.calls_re(r"ops::try_trait::Try>?::branch$|Option::<T>::(and_then|map|as_ref|first|get)$|slice::<impl \[T\]>::first$", cleanup=False))
            for x in g.calls_re(r"Option::<T>::(unwrap|expect)$|Result::<T, E>::(unwrap|expect)$|Index(<.*>)?>?::index$", cleanup=False):
                how = inv.guard_index(g, x) if g.term(x)["callee"].endswith("::index") else inv.guard_unwrap(g, x)
                if how is None:
                    unsafe_steps.append(g.term(x)["callee"])
        ctx.check(n_steps >= 1 and not unsafe_steps, rule, p, fn.span,
                  "%s yields None (through `?` / Option combinators) when the span is a no-op / no scope is open / the token is empty -- no "
                  "unwrap, no unguarded index" % p.rsplit("::", 1)[1], "%d partial steps" % n_steps,
                  "partial steps: %d; panicking steps: %s" % (n_steps, unsafe_steps), extra="none")


# ------------------------------------------------------------------------------------------------ C06

def rule_pseudo_spans(ctx, facts, rule):
    prov = Prov(facts)
    for name, kind in (("add_properties", "Properties"), ("add_event", "Event")):
        fn = ctx.need_fn(facts, "fastrace::span::Span::" + name, rule)
        if fn is None:
            continue
        subs = sites_star(facts, fn, lambda g, t: callee_is(t, r"GlobalCollect::submit_spans$"))
        kinds = []
        for b, blk in enumerate(fn.blocks):
            if blk["cleanup"]:
                continue
            for s in blk["stmts"]:
                if s["k"] == "assign" and ".raw_kind" in s["lhs"]["p"]:
                    src = data_origins(prov._of_rvalue(fn, b, s["rv"], (), 0, set()))
                    kinds.append((b, sorted({str(x.key).rsplit("::", 1)[-1].rstrip(":") for x in src})))
        ok = bool(subs) and bool(kinds) and all(v == [kind] for _, v in kinds) and \
            all(any(fn.dominates(b, x) for b, _ in kinds) for x in subs)
        ctx.check(ok, rule, fn.path, fn.span,
                  "Span::%s marks the pseudo-span as RawKind::%s before submitting it" % (name, kind),
                  "", "kind assignments %s, submit sites %s" % ([(fn.loc(b), v) for b, v in kinds], subs), extra="kind")
        ewp = fn.calls_re(r"^fastrace::span::Span::enter_with_parent$", cleanup=False)
        okp = bool(ewp) and all(has_origin(prov.of_operand(fn, fn.term(b)["args"][1]), kind="param", key=1, path=()) for b in ewp)
        ctx.check(okp, rule, fn.path, fn.span, "the pseudo-span is a child of the span it is attached to (enter_with_parent(_, self))",
                  "", "enter_with_parent sites %s" % ewp, extra="parent")
        # the handle's route is the only route: whatever the calling thread's local context is, the attachment travels as a pseudo-span of
        # its own under the handle's token (a detour through the thread's scope makes it depend on when that scope is closed and on its
        # capacity)
        ok_route, wit = fn.must_pass([0], ewp) if ewp else (False, None)
        local_calls = [fn.loc(b) for b in fn.calls_re(r"^fastrace::local::local_span::LocalSpan::|^fastrace::local::local_span_stack::", cleanup=False)]
        ctx.check(ok_route and not local_calls, rule, fn.path, fn.span,
                  "Span::%s creates its pseudo-span on every path (no other route chosen from the thread's local context)" % name, "",
                  "a path returns at bb%s without enter_with_parent; calls into the local scope machinery: %s" % (wit, local_calls), extra="route")
        if name == "add_event":
            props = [(b, s) for b, blk in enumerate(fn.blocks) if not blk["cleanup"] for s in blk["stmts"]
                     if s["k"] == "assign" and ".properties" in s["lhs"]["p"] and ".raw_span" in s["lhs"]["p"]]
            okv = bool(props) and all(has_origin(prov._of_rvalue(fn, b, s["rv"], (), 0, set()), kind="param", key=2, path=(".properties",))
                                      for b, s in props)
            okn = bool(ewp) and all(has_origin(prov.of_operand(fn, fn.term(b)["args"][0]), kind="param", key=2, path=(".name",)) for b in ewp)
            ctx.check(okv and okn, rule, fn.path, fn.span, "the event's name and properties travel on the pseudo-span", "",
                      "properties assignment ok: %s, name ok: %s" % (okv, okn), extra="payload")
    for name, kind in (("add_properties", "Properties"), ("add_event", "Event"), ("start_span", "Span")):
        fn = ctx.need_fn(facts, "fastrace::local::span_queue::SpanQueue::" + name, rule)
        if fn is None:
            continue
        bw = fn.calls_re(r"RawSpan::begin_with$", cleanup=False)
        if not bw:
            ctx.fail(rule, fn.path, fn.span, "SpanQueue::%s builds a raw span" % name, "anchor lost", extra="queue")
            continue
        t = fn.term(bw[0])
        ksrc = prov.of_operand(fn, t["args"][4])
        okk = all(str(x.key).endswith("RawKind::" + kind) for x in data_origins(ksrc)) and bool(ksrc)
        okp = has_origin(prov.of_operand(fn, t["args"][1]), kind="param", key=1, path_suffix=(".next_parent_id",))
        ctx.check(okk and okp, rule, fn.path, fn.loc(bw[0]),
                  "SpanQueue::%s records RawKind::%s under the scope's innermost open span" % (name, kind),
                  "", "kind origins %s, parent from next_parent_id: %s" % (origin_strs(ksrc), okp), extra="queue")


def amend_table(facts, prov, fn):
    """Per RawKind variant: what the arm of amend_* does. -> {variant: description tuple}"""
    sw = None
    for b in range(len(fn.blocks)):
        info = fn.switch_info(b)
        if info and info.get("kind") == "discr" and info["ty"].endswith("raw_span::RawKind") and not fn.blocks[b]["cleanup"]:
            sw = b
            break
    if sw is None:
        return None
    table = {}
    info = fn.switch_info(sw)
    for v in sorted(set(info["variants"].values())):
        edges = fn.variant_edges(sw, [v])
        starts = [(a, d) for a, d, _ in edges]
        others = [(a, d) for a, d, _ in fn.variant_edges(sw, [x for x in info["variants"].values() if x != v])]
        other_blocks = set()
        for e in others:
            other_blocks |= fn.reach([e], avoid_blocks=[sw])
        mine = set()
        for e in starts:
            mine |= fn.reach([e], avoid_blocks=[sw])
        only = mine - other_blocks
        rec_push = [b for b in only if fn.term(b)["k"] == "call" and fn.term(b)["callee"].endswith("Vec::<T, A>::push")
                    and "SpanRecord" in fn.term(b)["arg_tys"][0]]
        entries = [b for b in only if fn.term(b)["k"] == "call" and re.search(r"HashMap::<K, V, S, A>::entry$", fn.term(b)["callee"])]
        dang = []
        for b in only:
            for s in fn.blocks[b]["stmts"]:
                if s["k"] == "assign" and s["rv"]["k"] == "agg" and s["rv"].get("adt", "").endswith("DanglingItem"):
                    dang.append((b, s))
        key_ok = all(root_local(fn, fn.term(b)["args"][1])[0] is not None for b in entries)
        keys = []
        for b in entries:
            src = data_origins(prov.of_operand(fn, fn.term(b)["args"][1]))
            keys.append(tuple(sorted(("param3" if sig(x) == ("param", 3, ()) else "".join(x.path[-1:])) for x in src)))
        payload = []
        for b, s in dang:
            src = data_origins(prov.of_operand(fn, s["rv"]["ops"][0]))
            payload.append((s["rv"]["variant"], tuple(sorted({"".join(x.path[-1:]) for x in src if x.path}))))
        table[v] = (len(rec_push) > 0, tuple(keys), tuple(sorted(payload)))
    return table


def rule_amend_routes(ctx, facts, rule):
    prov = Prov(facts)
    tables = {}
    for p in AMENDS:
        fn = ctx.need_fn(facts, p, rule)
        if fn is None:
            return
        tables[p] = amend_table(facts, prov, fn)
        if tables[p] is None:
            ctx.fail(rule, p, fn.span, "amend_* dispatches on RawKind", "no match on raw_kind", extra="dispatch")
            return
    a, l = tables[AMENDS[0]], tables[AMENDS[1]]
    want = {
        "Span": lambda t: t[0] and not t[1] and not t[2],
        "Event": lambda t: not t[0] and len(t[1]) == 1 and len(t[2]) == 1 and t[2][0][0] == "Event"
        and {".name", ".begin_instant", ".properties"} <= set(t[2][0][1]),
        "Properties": lambda t: not t[0] and len(t[1]) == 1 and len(t[2]) == 1 and t[2][0][0] == "Properties"
        and set(t[2][0][1]) == {".properties"},
    }
    for v, pred in want.items():
        for p, tab in tables.items():
            t = tab.get(v)
            ctx.check(t is not None and pred(t), rule, p, "-",
                      "RawKind::%s is routed %s" % (v, {"Span": "to the record list", "Event": "to danglings[parent] as an EventRecord built from name/begin_instant/properties",
                                                        "Properties": "to danglings[parent] as Properties(span.properties)"}[v]),
                      "%s" % (t,), "arm does: pushes record=%s, dangling keys=%s, payload=%s" % (t or (None, None, None)), extra="route-" + v)
    # keys: parent of the pseudo-span
    for p, tab in tables.items():
        for v in ("Event", "Properties"):
            t = tab.get(v)
            if not t or not t[1]:
                continue
            k = set(t[1][0])
            good = (k == {"param3"}) if p.endswith("amend_span") else (k == {"param3", ".parent_id"})
            ctx.check(good, rule, p, "-", "attachments are parked under the id of the span they were attached to (the pseudo-span's parent)",
                      "key origins %s" % sorted(k), "key origins %s" % sorted(k), extra="key-" + v)
    ctx.check(a == {k: (v[0], tuple(tuple(x for x in kk if x != ".parent_id") for kk in v[1]), v[2]) for k, v in l.items()},
              rule, "amend_span/amend_local_span", "-",
              "sibling agreement: both converters route every kind the same way", "", "amend_span %s vs amend_local_span %s" % (a, l),
              extra="siblings")


def rule_mount(ctx, facts, rule):
    prov = Prov(facts)
    fn = ctx.need_fn(facts, "fastrace::collector::global_collector::mount_danglings", rule)
    if fn is None:
        return
    rem = [b for b in fn.calls_re(r"HashMap::<K, V, S, A>::remove$", cleanup=False)]
    ok = bool(rem)
    for b in rem:
        src = data_origins(prov.of_operand(fn, fn.term(b)["args"][1]))
        ok = ok and all(x.kind == "param" and x.key == 1 and suffix_is(x, ".span_id") for x in src) and bool(src)
    ctx.check(ok, rule, fn.path, fn.loc(rem[0]) if rem else fn.span,
              "parked attachments are looked up by the record's own span_id and consumed (HashMap::remove)", "",
              "remove key origins: %s" % [origin_strs(prov.of_operand(fn, fn.term(b)["args"][1])) for b in rem], extra="key")
    ev = [b for b in fn.calls_re(r"Vec::<T, A>::push$", cleanup=False) if "EventRecord" in fn.term(b)["arg_tys"][0]]
    okev = bool(ev) and all(has_origin(prov.of_operand(fn, fn.term(b)["args"][0]), kind="param", key=1, path_suffix=(".events",)) for b in ev)
    pr = [b for b in fn.calls_re(r"Extend(<.*>)?>?::extend$|Vec::<T, A>::(extend|append)\w*$", cleanup=False)]
    okpr = bool(pr) and all(has_origin(prov.of_operand(fn, fn.term(b)["args"][0]), kind="param", key=1, path_suffix=(".properties",)) for b in pr)
    ctx.check(okev and okpr, rule, fn.path, fn.span, "events are appended to record.events and properties to record.properties (order kept)",
              "", "events ok: %s, properties ok: %s" % (okev, okpr), extra="targets")


# ------------------------------------------------------------------------------------------------ C17

def rule_push_child(ctx, facts, rule):
    prov = Prov(facts)
    # the public entry point, with the private SpanInner::push_child_spans looked through whether it exists or was inlined by hand
    pub = ctx.need_fn(facts, "fastrace::span::Span::push_child_spans", rule)
    if pub is None:
        return
    from .core import inline_calls
    fn = inline_calls(facts, pub, lambda g: g.path == "fastrace::span::SpanInner::push_child_spans", depth=2)
    sub = sites_star(facts, fn, lambda g, t: callee_is(t, r"GlobalCollect::submit_spans$"))
    if not sub:
        ctx.fail(rule, fn.path, fn.span, "push_child_spans submits the set", "no submit_spans call", extra="submit")
        return
    t = fn.term(sub[0])
    setsrc = prov.of_operand(fn, t["args"][1])
    toksrc = prov.of_operand(fn, t["args"][2])
    shared = False
    for bb, blk in enumerate(fn.blocks):
        for st in blk["stmts"]:
            if st["k"] == "assign" and st["rv"]["k"] == "agg" and st["rv"].get("adt") == "fastrace::collector::SpanSet" \
                    and st["rv"].get("variant") == "SharedLocalSpans" and st["rv"]["ops"]:
                shared = shared or has_origin(prov.of_operand(fn, st["rv"]["ops"][0]), kind="param", key=2)
    tok_ok = any(v[0] == "call" and v[1].endswith("SpanInner::issue_collect_token") for x in toksrc for v in x.via) and \
        has_origin(toksrc, kind="param", key=1)
    ctx.check(shared and tok_ok, rule, fn.path, fn.loc(sub[0]),
              "the same Arc is submitted as SpanSet::SharedLocalSpans under a token issued by the receiving span",
              "", "shared arc: %s; token from self.issue_collect_token(): %s" % (shared, tok_ok), extra="submit")

    def empty(o):
        return any(v[0] == "call" and v[1].endswith("::is_empty") for v in o.via) and suffix_is(o, ".spans")
    e = bool_cond_edges(fn, prov, empty, True)
    some = discr_cond_edges(fn, prov, r"Option<(&)?fastrace::span::SpanInner>", ["Some"])
    starts = [(a, d) for a, d, _ in some] if some else [0]
    ok, wit = fn.must_pass(starts, sub, avoid_edges=e)
    ctx.check(ok, rule, fn.path, fn.span, "on a recording span the only early return is for an empty set", "", "a path skips the submit at bb%s" % wit, extra="early")


def rule_local_converters_agree(ctx, facts, rule):
    prov = Prov(facts)
    tsr = ctx.need_fn(facts, "fastrace::collector::global_collector::<impl fastrace::local::local_collector::LocalSpansInner>::to_span_records", rule)
    pp = ctx.need_fn(facts, "fastrace::collector::global_collector::postprocess_span_collection", rule)
    if tsr is None or pp is None:
        return
    a = tsr.calls(lambda t: t["callee"] == AMENDS[1])
    m = tsr.calls(lambda t: t["callee"].endswith("global_collector::mount_danglings"))
    ok = len(a) == 1 and len(m) == 1 and tsr.dominates(a[0], m[0])
    if ok:
        t = tsr.term(a[0])
        ok = ok and has_origin(prov.of_operand(tsr, t["args"][1]), kind="param", key=2, path=(".trace_id",)) and \
            has_origin(prov.of_operand(tsr, t["args"][2]), kind="param", key=2, path=(".span_id",)) and \
            has_origin(prov.of_operand(tsr, t["args"][0]), kind="param", key=1, path=())
        # the records and danglings handed to mount are the ones amend wrote to (passed one by one or inside a parameter object)
        def roots(op):
            out = set()
            if op["k"] in ("copy", "move"):
                rl = root_local(tsr, op)[0]
                out.add(rl)
                sd = tsr.single_def(rl)
                if sd and sd[1] != "term" and sd[2]["k"] == "assign" and sd[2]["rv"]["k"] == "agg":
                    for o2 in sd[2]["rv"]["ops"]:
                        out |= roots(o2)
            return out
        amend_roots = set()
        for a in t["args"]:
            amend_roots |= roots(a)
        mt = tsr.term(m[0])

        def derived_from(op, depth=6):
            # the locals an argument is a view of: `&mut records[..]`, `records.iter_mut()`, `&mut *danglings`
            if op["k"] not in ("copy", "move") or depth == 0:
                return set()
            rl = root_local(tsr, op)[0]
            out = {rl}
            sd = tsr.single_def(rl)
            if sd and sd[1] == "term" and sd[2]["k"] == "call":
                idx = transparent_args(sd[2]["callee"]) or transparent_args(sd[2].get("decl", "")) or []
                for i in idx:
                    if i < len(sd[2]["args"]):
                        out |= derived_from(sd[2]["args"][i], depth - 1)
            elif sd and sd[1] != "term" and sd[2]["k"] == "assign":
                rv = sd[2]["rv"]
                if rv["k"] == "use":
                    out |= derived_from(rv["op"], depth - 1)
                elif rv["k"] == "ref":
                    out |= derived_from({"k": "copy", "l": rv["place"]["l"], "p": rv["place"]["p"]}, depth - 1)
            return out
        ok = ok and all(derived_from(a) & amend_roots for a in mt["args"][:2] if a["k"] in ("copy", "move"))
    ctx.check(ok, rule, tsr.path, tsr.span,
              "to_span_records converts with the collector's amend_local_span (trace <- context.trace_id, parent <- context.span_id) "
              "and then mounts attachments with the collector's mount_danglings", "", "call shape differs", extra="to_span_records")
    la = [b for b in pp.calls(lambda t: t["callee"] == AMENDS[1]) if not pp.blocks[b]["cleanup"]]
    mm = [b for b in pp.calls(lambda t: t["callee"].endswith("global_collector::mount_danglings")) if not pp.blocks[b]["cleanup"]]
    # every arm that holds a local-span set (either variant, owned or shared) reaches amend_local_span before the next
    # element / the mount / the return, and the mount follows every conversion
    nexts = [b for b in pp.calls_re(r"Iterator>?::next$", cleanup=False)]
    stops = set(nexts) | set(mm) | set(pp.returns())
    arms, bad = 0, []
    for sb in range(len(pp.blocks)):
        info = pp.switch_info(sb)
        if not info or info.get("kind") != "discr" or not info["ty"].endswith("collector::SpanSet") or pp.blocks[sb]["cleanup"]:
            continue
        for v in ("LocalSpansInner", "SharedLocalSpans"):
            es = pp.variant_edges(sb, [v])
            if not es:
                continue
            arms += 1
            r = pp.reach([(a, d) for a, d, _ in es], avoid_blocks=la)
            if r & stops:
                bad.append((pp.loc(sb), v))
    ok2 = arms >= 2 and not bad and len(mm) >= 1 and all(any(m in pp.reach([(b, pp.term(b)["target"])]) for m in mm) for b in la)
    ctx.check(ok2, rule, pp.path, pp.span,
              "every local-span arm of postprocess_span_collection (LocalSpansInner / SharedLocalSpans, owned or shared) converts with "
              "amend_local_span and is followed by mount_danglings", "%d arms, %d conversions" % (arms, len(la)),
              "arms: %d, arms that skip the conversion: %s, mounts: %d" % (arms, bad, len(mm)), extra="arms")


def rule_open_spans(ctx, facts, rule):
    prov = Prov(facts)
    fn = ctx.need_fn(facts, AMENDS[1], rule)
    if fn is not None:
        cons = [c for c in constructions(facts, SPAN_RECORD, crates=["fastrace"]) if c[0] is fn]
        if cons:
            _, b, s, f = cons[0]
            dsrc = prov.of_operand(fn, f["duration_ns"])
            # the end operand of the subtraction
            sub = [v[2] for x in dsrc for v in x.via if v[0] == "call" and v[1].endswith("saturating_sub")]
            ok = False
            detail = "no saturating_sub"
            if sub:
                t = fn.term(sub[0])
                end = data_origins(prov.of_operand(fn, t["args"][0]))
                ends = {"".join(x.path[-1:]) for x in end if x.path}
                el = root_local(fn, t["args"][0])[0]

                def zero_cmp(o):
                    return any(v[0] == "call" and re.search(r"PartialEq(<.*>)?>?::eq$", v[1]) for v in o.via) and \
                        (suffix_is(o, ".end_instant") or "Instant::ZERO" in str(o.key))
                zt = bool_cond_edges(fn, prov, zero_cmp, True)
                zf = bool_cond_edges(fn, prov, zero_cmp, False)
                # where each of the two candidates is selected into the end operand (possibly a few copies / a helper's
                # parameter / the unix-time conversion earlier than the subtraction)
                p_time = selection_blocks(fn, prov, t["args"][0], lambda x: suffix_is(x, ".end_time"))
                p_inst = selection_blocks(fn, prov, t["args"][0], lambda x: suffix_is(x, ".end_instant"))
                okd = bool(p_time) and bool(p_inst) and bool(zt) and bool(zf) and \
                    all(fn.guarded([db], zt) for db in p_time) and all(fn.guarded([db], zf) for db in p_inst)
                ok = {".end_instant", ".end_time"} <= ends and okd
                detail = "end operand origins %s; chosen on the ==ZERO edges: %s" % (sorted(ends), okd)
            ctx.check(ok, rule, fn.path, fn.loc(b),
                      "a local span still open when its set was collected ends at the set's collection time (end_instant == ZERO -> end_time)",
                      detail, detail, extra="open")
    cs = ctx.need_fn(facts, "fastrace::local::local_collector::LocalCollector::collect_spans_and_token", rule)
    if cs is not None:
        cons = [c for c in constructions(facts, "fastrace::local::local_collector::LocalSpansInner", crates=["fastrace"]) if c[0] is cs]
        ok = False
        if cons:
            _, b, s, f = cons[0]
            src = prov.of_operand(cs, f["end_time"])
            now = [v[2] for x in src for v in x.via if v[0] == "call" and v[1].endswith("Instant::now")] + \
                [bb for bb in cs.calls_re(r"fastant::instant::Instant::now$", cleanup=False)]
            is_now = any(x.kind == "call" and str(x.key).endswith("Instant::now") for x in src)
            unreg = sites_star(facts, cs, lambda g, t: t["callee"].endswith("LocalSpanStack::unregister_and_collect"))
            # "after": the clock is never read on a path that unregisters the scope later (on the path that has no scope
            # to unregister -- a collector that was refused or already collected -- there is nothing to be after)
            after = bool(now) and bool(unreg) and not any(set(unreg) & cs.reach([(n, cs.term(n)["target"])]) for n in now if cs.term(n).get("target") is not None)
            ok = is_now and after
        ctx.check(ok, rule, cs.path, cs.span, "the collection time is Instant::now() taken after the scope was unregistered", "",
                  "end_time origin / order check failed", extra="end_time")


def rule_forest_immutable(ctx, facts, rule):
    bad = []
    for fn in facts.fns.values():
        if fn.crate != "fastrace":
            continue
        for b in fn.calls_re(r"sync::Arc::<T, A>::(get_mut|make_mut|get_mut_unchecked|try_unwrap|into_inner)$", cleanup=False):
            if "LocalSpansInner" in fn.term(b)["arg_tys"][0]:
                bad.append((fn.path, fn.loc(b)))
    ctx.check(not bad, rule, "fastrace::local::local_collector::LocalSpansInner", "-",
              "a captured local-span forest is never mutated once it is shared (no Arc::get_mut / make_mut)", "", "sites %s" % bad, extra="arc")
    adt = facts.adts.get(RAW_SPAN)
    inner = facts.adts.get("fastrace::local::local_collector::LocalSpansInner")
    cells = []
    for a in (adt, inner):
        if a is None:
            continue
        for f in a["variants"][0]["fields"]:
            if re.search(r"\b(Cell|RefCell|UnsafeCell|Mutex|RwLock|Atomic\w*|OnceCell|OnceLock)\b", f["ty"]):
                cells.append((a["path"], f["name"], f["ty"]))
    ctx.check(adt is not None and inner is not None and not cells, rule, RAW_SPAN, "-",
              "RawSpan / LocalSpansInner have no interior mutability (N parents see identical data)", "", "fields %s" % cells, extra="cells")


# ------------------------------------------------------------------------------------------------ C18

def rule_record_times(ctx, facts, rule):
    prov = Prov(facts)
    for p in AMENDS:
        fn = ctx.need_fn(facts, p, rule)
        if fn is None:
            continue
        nm = p.rsplit("::", 1)[1]

        def is_anchor(x, fn=fn):
            """the caller's anchor: the &Anchor parameter, or the anchor field of a parameter object"""
            if x.kind != "param" or not (1 <= x.key <= fn.arg_count):
                return False
            return (x.path == () and fn.locals[x.key].rstrip(">").endswith("instant::Anchor")) or x.path[-1:] == (".anchor",)
        for c in [c for c in constructions(facts, SPAN_RECORD, crates=["fastrace"]) if c[0] is fn]:
            _, b, s, f = c
            bsrc = data_origins(prov.of_operand(fn, f["begin_time_unix_ns"]))
            expect(ctx, rule, fn, fn.loc(b), "%s: begin_time_unix_ns <- begin_instant converted with the anchor parameter" % nm, bsrc,
                   [("begin_instant", lambda x: suffix_is(x, ".begin_instant")), ("anchor param", is_anchor)],
                   [("end_instant", lambda x: suffix_is(x, ".end_instant") or suffix_is(x, ".end_time"))], extra="begin")
            dsrc = prov.of_operand(fn, f["duration_ns"])
            sub = [v[2] for x in dsrc for v in x.via if v[0] == "call" and v[1].endswith("saturating_sub")]
            ok = False
            detail = "duration is not a saturating_sub"
            if sub:
                t = fn.term(sub[0])
                recv = data_origins(prov.of_operand(fn, t["args"][0]))
                arg = data_origins(prov.of_operand(fn, t["args"][1]))
                r_end = any(suffix_is(x, ".end_instant") for x in recv) and not any(suffix_is(x, ".begin_instant") for x in recv)
                a_beg = any(suffix_is(x, ".begin_instant") for x in arg) and not any(suffix_is(x, ".end_instant") or suffix_is(x, ".end_time") for x in arg)
                ok = r_end and a_beg
                detail = "receiver %s, argument %s" % (origin_strs(recv, 4), origin_strs(arg, 4))
            ctx.check(ok, rule, p, fn.loc(b), "%s: duration_ns = end.saturating_sub(begin)" % nm, detail, detail, extra="duration")
        for c in [c for c in constructions(facts, EVENT_RECORD, crates=["fastrace"]) if c[0] is fn]:
            _, b, s, f = c
            expect(ctx, rule, fn, fn.loc(b), "%s: event timestamp <- the pseudo-span's begin_instant" % nm,
                   data_origins(prov.of_operand(fn, f["timestamp_unix_ns"])),
                   [("begin_instant", lambda x: suffix_is(x, ".begin_instant")), ("anchor param", is_anchor)],
                   [("end", lambda x: suffix_is(x, ".end_instant") or suffix_is(x, ".end_time"))], extra="event")
        conv = fn.calls_re(r"fastant::instant::Instant::as_unix_nanos$", cleanup=False)
        okc = bool(conv) and all(bool(data_origins(prov.of_operand(fn, fn.term(b)["args"][1]))) and
                                 all(is_anchor(x) for x in data_origins(prov.of_operand(fn, fn.term(b)["args"][1]))) for b in conv)
        ctx.check(okc, rule, p, fn.span, "%s: every instant is converted with the function's anchor parameter" % nm, "%d conversions" % len(conv),
                  "a conversion uses another anchor", extra="anchor")
        anch = fn.calls_re(r"fastant::instant::Anchor::new$", cleanup=False)
        ctx.check(not anch, rule, p, fn.span, "%s creates no anchor of its own" % nm, "", "Anchor::new at %s" % [fn.loc(b) for b in anch], extra="no-anchor")
    tsr = facts.fn("fastrace::collector::global_collector::<impl fastrace::local::local_collector::LocalSpansInner>::to_span_records")
    if tsr is not None:
        an = tsr.calls_re(r"fastant::instant::Anchor::new$", cleanup=False)
        ctx.check(len(an) == 1 and not tsr.on_cycle(an[0]), rule, tsr.path, tsr.span, "to_span_records converts with exactly one anchor", "",
                  "%d anchors" % len(an), extra="one-anchor")


def _only_now(origins):
    """The stamp is Instant::now() on every path: no other value (a constant such as Instant::ZERO, a field, a
    parameter) can reach the operand."""
    origins = list(origins)
    return bool(origins) and all(x.kind == "call" and str(x.key).endswith("Instant::now") for x in origins)


def rule_stamps(ctx, facts, rule):
    prov = Prov(facts)
    fn = ctx.need_fn(facts, "<fastrace::span::Span as core::ops::drop::Drop>::drop", rule)
    if fn is not None:
        ew = fn.calls_re(r"RawSpan::end_with$", cleanup=False)
        sub = sites_star(facts, fn, lambda g, t: callee_is(t, r"GlobalCollect::submit_spans$"))
        ok = bool(ew) and bool(sub) and all(any(fn.dominates(e, s) and e != s for e in ew) for s in sub)
        now = ok and all(_only_now(prov.of_operand(fn, fn.term(e)["args"][1])) for e in ew)
        ctx.check(ok and now, rule, fn.path, fn.span, "Span::drop stamps end_instant with Instant::now() before it submits the span", "",
                  "end_with dominates submit: %s; argument is Instant::now(): %s" % (ok, now), extra="span-end")
    SQ = "fastrace::local::span_queue::SpanQueue::"
    fn = ctx.need_fn(facts, SQ + "finish_span", rule)
    if fn is not None:
        ew = fn.calls_re(r"RawSpan::end_with$", cleanup=False)
        ok = bool(ew)
        for e in ew:
            t = fn.term(e)
            ok = ok and _only_now(prov.of_operand(fn, t["args"][1]))
            ok = ok and has_origin(prov.of_operand(fn, t["args"][0]), kind="param", key=1, path_suffix=(".span_queue",))
        ctx.check(ok, rule, fn.path, fn.span, "finish_span stamps the indexed span's end_instant with Instant::now()", "", "end_with shape differs", extra="local-end")
        every, wit = fn.must_pass([0], ew) if ew else (False, None)
        ctx.check(every, rule, fn.path, fn.span, "finish_span stamps the end on every returning path (a span that was started is finished, also when the queue "
                  "has filled up in the meantime)", "", "a path returns at bb%s without end_with: the span stays open and is closed at collection time" % wit,
                  extra="local-end-always")
    for name in ("start_span", "add_event"):
        fn = ctx.need_fn(facts, SQ + name, rule)
        if fn is None:
            continue
        bw = fn.calls_re(r"RawSpan::begin_with$", cleanup=False)
        ok = bool(bw) and all(_only_now(prov.of_operand(fn, fn.term(b)["args"][2])) for b in bw)
        ctx.check(ok, rule, fn.path, fn.span, "SpanQueue::%s stamps begin_instant with Instant::now()" % name, "", "begin argument is not Instant::now()", extra="begin-" + name)
    # wherever a recording span is built, its RawSpan begins now
    from .spanrules import span_builds
    builds = span_builds(facts)
    okb = bool(builds)
    for g, b, f in builds:
        src = prov.of_operand(g, f["raw_span"]) if "raw_span" in f else set()
        bws = sorted({v[2] for o in src for v in o.via if v[0] == "call" and v[1].endswith("RawSpan::begin_with")})
        bws = [x for x in bws if x < len(g.blocks) and g.blocks[x]["term"].get("callee", "").endswith("RawSpan::begin_with")]
        okb = okb and bool(bws) and all(_only_now(prov.of_operand(g, g.term(x)["args"][2])) for x in bws)
    ctx.check(okb, rule, "fastrace::span::SpanInner", "-", "a recording span's begin_instant is Instant::now() wherever the span is built", "%d build sites" % len(builds),
              "a build site's RawSpan does not begin with Instant::now()", extra="begin-span")


def rule_elapsed(ctx, facts, rule):
    prov = Prov(facts)
    fn = ctx.need_fn(facts, "fastrace::span::Span::elapsed", rule)
    if fn is None:
        return
    some = discr_cond_edges(fn, prov, r"Option<(&)?fastrace::span::SpanInner>", ["Some"])
    el = fn.calls_re(r"fastant::instant::Instant::elapsed$", cleanup=False)
    okr = bool(el) and all(has_origin(prov.of_operand(fn, fn.term(b)["args"][0]), kind="param", key=1, path_suffix=(".raw_span", ".begin_instant")) for b in el)
    somes = [b for b, blk in enumerate(fn.blocks) if not blk["cleanup"] for s in blk["stmts"]
             if s["k"] == "assign" and s["lhs"]["l"] == 0 and s["rv"]["k"] == "agg" and s["rv"].get("variant") == "Some"]
    nones = [b for b, blk in enumerate(fn.blocks) if not blk["cleanup"] for s in blk["stmts"]
             if s["k"] == "assign" and s["lhs"]["l"] == 0 and s["rv"]["k"] == "agg" and s["rv"].get("variant") == "None"]
    ok = okr and bool(some) and bool(somes) and bool(nones) and fn.guarded(somes, some)
    r = fn.reach([0], avoid_edges=some)
    ok = ok and all(n in r for n in nones)
    if not ok:
        # combinator form: self.inner.as_ref().map(|inner| inner.raw_span.begin_instant.elapsed())
        ret = prov.of_local(fn, 0)
        via_map = [v for o in ret for v in o.via if v[0] == "call" and re.search(r"Option::<T>::map$", v[1])]
        cl = [c for c in facts.closures_of(fn)]
        el2 = [(c, b) for c in cl for b in c.calls_re(r"fastant::instant::Instant::elapsed$", cleanup=False)]
        recv_ok = bool(el2) and all(any(o.path[-2:] == (".raw_span", ".begin_instant") for o in prov.of_operand(c, c.term(b)["args"][0])) for c, b in el2)
        data_ok = False
        for v in via_map:
            t = fn.term(v[2])
            data_ok = data_ok or has_origin(prov.of_operand(fn, t["args"][0]), kind="param", key=1, path_suffix=(".inner",))
        ok = bool(via_map) and recv_ok and data_ok and not el
    ctx.check(ok, rule, fn.path, fn.span, "Span::elapsed returns begin_instant.elapsed() under inner = Some and None otherwise", "",
              "receiver ok: %s, Some guarded: %s" % (okr, bool(some) and fn.guarded(somes, some)), extra="elapsed")


def rule_token_derivation_total(ctx, facts, rule):
    """C02-R6: a token derived from a span covers every item of that span's token (one per parent trace); only
    SpanContext::from_span may look at the first item alone."""
    TRUNC = re.compile(r"Iterator>?::(next|take|take_while|nth|last|find|find_map|skip|skip_while|step_by|filter|filter_map|max\w*|min\w*|position|peekable|next_back|rev)$")
    n = 0
    for g in facts.fns.values():
        if g.crate != "fastrace" or EXCLUDE.search(g.path):
            continue
        for b in g.calls_re(r"fastrace::span::SpanInner::issue_collect_token$|local_span_line::SpanLine::current_collect_token$", cleanup=False):
            t = g.term(b)
            if t["callee"].endswith("current_collect_token"):
                continue
            n += 1
            dest = t["dest"]["l"]
            users = []
            for x in g.calls():
                for a in g.term(x)["args"][:1]:
                    if a["k"] in ("copy", "move") and root_local(g, a)[0] == dest:
                        users.append(g.term(x)["callee"])
            trunc = [u for u in users if TRUNC.search(u)]
            allowed_first = re.sub(r"(::\{closure#[^}]*\})+$", "", g.path) == "fastrace::collector::id::SpanContext::from_span"
            ctx.check(not trunc or allowed_first, rule, g.path, g.loc(b),
                      "every item of the issuing span's token is carried over (collect / flat_map), so a descendant of a multi-parent "
                      "span is delivered in every parent's trace" + (" -- from_span is the one place that reads the first item only" if allowed_first else ""),
                      "consumers %s" % [u.rsplit("::", 1)[1] for u in users],
                      "the issued token is truncated by %s: descendants of a multi-parent span reach only one parent's trace" % trunc,
                      extra="total")
        # the method handed over by name: `.flat_map(SpanInner::issue_collect_token)` carries every item over as well
        for b in g.calls():
            t = g.term(b)
            for a in t["args"]:
                if a["k"] == "const" and str(a.get("fn", "")).endswith("span::SpanInner::issue_collect_token"):
                    n += 1
                    ctx.check(not TRUNC.search(t["callee"]), rule, g.path, g.loc(b),
                              "every item of the issuing span's token is carried over (collect / flat_map), so a descendant of a multi-parent "
                              "span is delivered in every parent's trace", "handed to %s" % t["callee"].rsplit("::", 1)[1],
                              "issue_collect_token is handed to %s, which truncates" % t["callee"], extra="total-by-name")
    ctx.floor(rule, "fastrace::span::SpanInner::issue_collect_token", n, 4, "uses of issue_collect_token")
    # the scope's re-issued token maps every stored item
    fn = facts.fn("fastrace::local::local_span_line::SpanLine::current_collect_token")
    if fn is not None:
        bodies = [fn] + facts.closures_of(fn)
        calls = [g.term(b)["callee"] for g in bodies for b in g.calls() if not g.blocks[b]["cleanup"]]
        trunc = [c for c in calls if TRUNC.search(c)]
        has = any(re.search(r"Iterator>?::map$", c) for c in calls) and any(re.search(r"Iterator>?::collect$", c) for c in calls)
        if not has:
            # external iteration: `for item in token { out.push(CollectTokenItem { .. }) }` -- next() and the push on one loop
            nx = [b for b in fn.calls_re(r"Iterator>?::next$", cleanup=False)]
            ps = [b for b in fn.calls_re(r"alloc::vec::Vec::<T, A>::push$", cleanup=False) if "CollectTokenItem" in fn.term(b)["arg_tys"][0]]
            if nx and ps and all(fn.on_cycle(b) for b in nx + ps) and all(ps_b in fn.natural_loop(nx[0]) or fn.on_cycle(ps_b) for ps_b in ps):
                has = True
                trunc = [c for c in trunc if not re.search(r"Iterator>?::next$", c)]
        ctx.check(has and not trunc, rule, fn.path, fn.span, "a scope re-issues its token item by item (iter -> map -> collect, or a loop that pushes one item per stored item)", "",
                  "iterator calls %s" % sorted({c.rsplit('::', 1)[1] for c in calls}), extra="scope-total")


def rule_token_order_preserved(ctx, facts, rule):
    """A collect token keeps its items and their order from the parents given by the program up to the submit choke
    point: nothing filters, sorts or reorders a Vec<CollectTokenItem> except GlobalCollect::submit_spans (retain sampled)."""
    MUT = re.compile(r"alloc::vec::Vec::<T, A>::(retain|retain_mut|sort\w*|reverse|swap|remove|swap_remove|dedup\w*|truncate|drain|insert|pop|clear|split_off|rotate_\w+)$"
                     r"|slice::<impl \[T\]>::(sort\w*|reverse|swap|rotate_\w+)$")
    bad = []
    n = 0
    for g in facts.fns.values():
        if g.crate != "fastrace" or EXCLUDE.search(g.path):
            continue
        for b in g.calls():
            t = g.term(b)
            if g.blocks[b]["cleanup"] or not t.get("arg_tys") or "CollectTokenItem" not in t["arg_tys"][0]:
                continue
            if t["callee"].endswith("iterator::Iterator::filter") and g.j.get("root", g.path).endswith("GlobalCollect::submit_spans"):
                n += 1                       # the sampling filter written as into_iter().filter(..).collect() (checked by the choke-point rule)
            if MUT.search(t["callee"]):
                n += 1
                root = g.j.get("root", g.path)
                if not (root.endswith("GlobalCollect::submit_spans") and t["callee"].endswith("::retain")):
                    bad.append((g.path, g.loc(b), t["callee"].rsplit("::", 1)[1]))
    # ... and the two functions that derive a token from a token hand the items on one for one, in order: no selecting / reordering
    # iterator adaptor between the source token and what they return
    SEL = re.compile(r"Iterator>?::(take|take_while|nth|last|find|find_map|skip|skip_while|step_by|filter|filter_map|max\w*|min\w*|position|rposition|rev|chain|zip|"
                     r"partition|cycle|flat_map|flatten|scan|fuse|peekable|next_back)$")
    for anchor in ("fastrace::span::SpanInner::issue_collect_token", "fastrace::local::local_span_line::SpanLine::current_collect_token"):
        g0 = facts.fn(anchor)
        if g0 is None:
            continue
        for g in [g0] + list(facts.closures_of(g0)):
            for b in g.calls_re(SEL.pattern, cleanup=False):
                bad.append((g.path, g.loc(b), g.term(b)["callee"].rsplit("::", 1)[1]))
    ctx.check(not bad and n >= 1, rule, "fastrace::util::CollectToken", "-",
              "token items are never filtered or reordered between the program's parent list and the submit choke point "
              "(the first item stays the first parent)", "%d mutating site(s): submit_spans' retain" % n,
              "token mutated at %s" % bad, extra="token-order")


def rule_extraction_never_gives_up(ctx, facts, rule):
    """current_local_parent / from_span return None only for the stated reasons -- not because the stack is busy."""
    for p in ("fastrace::collector::id::SpanContext::from_span", "fastrace::collector::id::SpanContext::current_local_parent"):
        fn = facts.fn(p)
        if fn is None:
            continue
        tb = fn.calls_re(r"RefCell::<T>::try_borrow(_mut)?$|Mutex::<R, T>::try_lock$", cleanup=False)
        ctx.check(not tb, rule, p, fn.span, "%s does not give up (return None) because the span stack is momentarily borrowed" % p.rsplit("::", 1)[1],
                  "", "try_borrow at %s: inside a property closure the extraction would silently yield None" % [fn.loc(b) for b in tb], extra="no-try-borrow")


def rule_token_answer_only_tokenless(ctx, facts, rule):
    """SpanLine::current_collect_token answers None for a scope without a token and for nothing else: every `return None` of its own
    lies behind the None edge of `self.collect_token` (an accessor that stops answering after the queue overflowed makes
    current_local_parent() say "no local parent" inside a scope that has one)."""
    prov = Prov(facts)
    p = "fastrace::local::local_span_line::SpanLine::current_collect_token"
    fn = facts.fn(p)
    if fn is None:
        ctx.fail(rule, p, "-", "anchor exists", "anchor lost", extra="token-none")
        return
    nones = []
    for b, blk in enumerate(fn.blocks):
        if blk["cleanup"]:
            continue
        for st in blk["stmts"]:
            if st["k"] == "assign" and st["lhs"]["l"] == 0 and not st["lhs"]["p"] and st["rv"]["k"] == "agg" and st["rv"].get("variant") == "None":
                nones.append(b)
    edges = discr_cond_edges(fn, prov, r"Option<", ["None"], place_pred=lambda pl: ".collect_token" in pl["p"])
    # any other test decides nothing about the answer: bool switches in the function (outside the mapping closure) are not expected
    tests = [fn.loc(b) for b, blk in enumerate(fn.blocks) if not blk["cleanup"] and blk["term"]["k"] == "switch" and blk["term"].get("discr_ty") == "bool"
             and blk["term"]["discr"]["k"] != "const"]
    ok = all(fn.guarded([b], edges) for b in nones) if nones else True
    ctx.check(ok and not (tests and nones and not edges), rule, p, fn.span,
              "SpanLine::current_collect_token returns None only for a scope without a collect token", "",
              "`None` is returned at %s outside the None arm of self.collect_token (other tests in the function: %s)" % ([fn.loc(b) for b in nones], tests),
              extra="token-none")


def rule_id_generator(ctx, facts, rule):
    """C02-R7: SpanId::next_id combines the per-thread prefix (high 32 bits) with a counter that is incremented by a
    non-zero constant and stored back on every call -- the structural part of "distinct ids for distinct spans".
    The per-thread state may be a tuple or a private struct; its components are told apart by what is done with them."""
    prov = Prov(facts)
    NID = "fastrace::collector::id::SpanId::next_id"
    nid = facts.fn(NID)
    bodies = ([nid] if nid is not None else []) + (facts.closures_of(nid) if nid is not None else [])
    gen = None
    for f in bodies:
        if f.calls_re(r"core::cell::Cell::<T>::set$", cleanup=False):
            gen = f
    if gen is None:
        ctx.fail(rule, NID, "-", "the id generator (the code that advances the per-thread state) exists", "anchor lost: no Cell::set in next_id or its closures", extra="gen")
        return
    sets = gen.calls_re(r"core::cell::Cell::<T>::set$", cleanup=False)
    gets = gen.calls_re(r"core::cell::Cell::<T>::get$", cleanup=False)
    # components of the state
    st_ty = gen.term(sets[0])["arg_tys"][1] if sets else ""
    if st_ty.startswith("("):
        comps = [".%d" % k for k in range(st_ty.count(",") + 1)]
    else:
        adt = facts.adts.get(st_ty)
        comps = ["." + x["name"] for x in adt["variants"][0]["fields"]] if adt and len(adt["variants"]) == 1 else []
    ADD = r"<impl u\d+>::(wrapping_add|checked_add|saturating_add)$"
    counter, prefixes, consts = None, [], []
    for b in sets[:1]:
        t = gen.term(b)
        for c in comps:
            src = prov.of_operand(gen, dict(t["args"][1], p=t["args"][1]["p"] + [c])) if t["args"][1]["k"] in ("copy", "move") else set()
            inc = [v for o in src for v in o.via if v[0] == "call" and re.search(ADD, v[1])]
            from_get = any(v[0] == "call" and v[1].endswith("Cell::<T>::get") for o in src for v in o.via)
            if inc and from_get:
                counter = c
                for v in inc:
                    if v[2] < len(gen.blocks) and gen.blocks[v[2]]["term"].get("callee") == v[1]:
                        consts.append(const_value(gen, gen.term(v[2])["args"][1]))
            elif from_get and all(o.path[-1:] == (c,) for o in src if o.kind == "call" and str(o.key).endswith("Cell::<T>::get")) and \
                    not any(v[0] in ("binop",) or (v[0] == "call" and re.search(ADD, v[1])) for o in src for v in o.via):
                prefixes.append(c)
    ok_set = counter is not None and bool(prefixes) and bool(consts) and all(c not in (0, None) for c in consts) and len(prefixes) == len(comps) - 1
    detail = "state components %s: counter %s advanced by %s, kept: %s" % (comps, counter, consts, prefixes)
    ctx.check(ok_set and len(sets) == 1 and len(gets) == 1, rule, gen.path, gen.span,
              "every call stores (prefix, counter + c) back with a non-zero constant c (the counter advances on each id)", detail,
              detail or "no Cell::set of the advanced counter", extra="advance")
    cons = [c for c in constructions(facts, "fastrace::collector::id::SpanId", crates=["fastrace"]) if c[0] is gen]
    host = gen
    if not cons:
        # the id assembled after the thread-local access (`try_with(|g| advance(g)).map(|(prefix, counter)| SpanId(..))`): built in
        # another body of next_id from what the generator closure returns
        cons = [c for c in constructions(facts, "fastrace::collector::id::SpanId", crates=["fastrace"])
                if any(c[0] is g2 for g2 in bodies) and not c[0].calls_re(r"rand::random$", cleanup=False)]
        if cons:
            host = cons[0][0]
    ok_id = False
    d2 = ""
    if cons and counter is not None:
        _, b, s, f = cons[0]
        src = prov.of_operand(host, list(f.values())[0])
        if host is not gen and host.kind == "Closure":
            src = prov.lift_closure_origins(host, src)
        if host is not gen:
            # what LocalKey::try_with returns is what the generator closure returns
            from .core import Origin
            src2 = set()
            for o in src:
                if o.kind == "call" and str(o.key).endswith("LocalKey::<T>::try_with"):
                    for o2 in prov.of_local(gen, 0, tuple(o.path)):
                        src2.add(Origin(o2.kind, o2.key, o2.path, o2.via + o.via))
                else:
                    src2.add(o)
            src = src2
        hi = [o for o in src if ("Shl", 32) in [(v[1], v[2]) for v in o.via if v[0] == "binop"] and o.kind != "const"]
        lo = [o for o in src if o not in hi and any(v[0] == "call" and re.search(ADD, v[1]) for v in o.via) and o.kind != "const"]
        named_hi = [o for o in hi if o.path[-1:] and o.path[-1] in comps]
        named_lo = [o for o in lo if o.path[-1:] and o.path[-1] in comps]
        ok_id = bool(named_hi) and all(o.path[-1] in prefixes for o in named_hi) and bool(lo) and all(o.path[-1] == counter for o in named_lo) and \
            any(v[0] == "binop" and v[1] == "BitOr" for o in src for v in o.via)
        d2 = "high half %s, low half %s" % (origin_strs(hi, 3), origin_strs(lo, 3))
    ctx.check(ok_id, rule, gen.path, gen.span, "the id is (prefix << 32) | advanced counter", d2, d2 or "no SpanId construction", extra="compose")
    if nid is not None:
        def is_rand(g, t):
            return bool(re.search(r"rand::random$", t["callee"]))
        fb = [c for c in bodies if c is not gen]
        rnd = any(sites_star(facts, c, is_rand) for c in fb) or (gen is not nid and bool(sites_star(facts, nid, is_rand)))
        ctx.check(rnd, rule, nid.path, nid.span, "when the thread-local generator is gone (teardown) a random id is used instead of a constant", "",
                  "the failure path of try_with does not reach rand::random", extra="fallback")
    # the per-thread state's initialiser draws the prefix at random
    keys = set()
    for f in bodies:
        for b in f.calls_re(r"thread::local::LocalKey::<T>::try_with$", cleanup=False):
            for o in prov.of_operand(f, f.term(b)["args"][0]):
                if o.kind == "static":
                    keys.add(str(o.key).split("::{", 1)[0])      # the thread_local! item, not std's inner VAL static
    if not keys:
        keys = {p.split("::{", 1)[0] for p, stt in facts.statics.items() if p.startswith("fastrace::collector::id::") and "Cell<" in stt["ty"]}
    init = [f for p, f in facts.fns.items() if any(p.startswith(k + "::") for k in keys)]
    rnd2 = any(sites_star(facts, f, lambda g, t: bool(re.search(r"rand::random$", t["callee"]))) for f in init)
    ctx.check(rnd2, rule, sorted(keys)[0] if keys else "fastrace::collector::id", "-", "the per-thread prefix is drawn at random when the thread first traces", "",
              "initialiser of %s does not call rand::random" % sorted(keys), extra="prefix")


def setter_shape(facts, prov, fn, adt_path, fld):
    """`fn(self, x) -> Self` returns self with exactly field `fld` replaced by x -- written as a struct update
    (`Self { fld: x, ..self }`), as `self.fld = x; self`, or through a crate-local helper. -> (ok, detail)"""
    adt = facts.adts.get(adt_path)
    if adt is None:
        return False, "type %s not found" % adt_path
    names = [f["name"] for f in adt["variants"][0]["fields"]]
    # a strong update of the parameter: `_1.fld = ..` on every path to the return
    # (`self` may have been moved through locals on its way to the return place: `let mut cfg = self; cfg.fld = x; cfg`)
    chain, grew = {1}, True
    while grew:
        grew = False
        for blk in fn.blocks:
            for st in blk["stmts"]:
                if st["k"] == "assign" and not st["lhs"]["p"] and st["rv"]["k"] == "use" and st["rv"]["op"]["k"] in ("copy", "move") \
                        and not st["rv"]["op"]["p"] and st["rv"]["op"]["l"] in chain and st["lhs"]["l"] not in chain and st["lhs"]["l"] != 0 \
                        and len([d for d in fn.defs(st["lhs"]["l"]) if d[1] == "term" or not d[2]["lhs"]["p"]]) == 1:
                    chain.add(st["lhs"]["l"])
                    grew = True
    writes = [b for b, blk in enumerate(fn.blocks) for st in blk["stmts"]
              if st["k"] == "assign" and st["lhs"]["l"] in chain and st["lhs"]["p"] == ["." + fld] and not blk["cleanup"]]
    strong = bool(writes) and fn.must_pass([0], writes)[0]
    got = {}
    for k in names:
        src = {sig(x) for x in data_origins(prov.of_local(fn, 0, ("." + k,)))}
        got[k] = src
    mine = set(got.get(fld, ()))
    if strong:
        mine.discard(("param", 1, ("." + fld,)))       # overwritten before the value is returned
    ok = mine == {("param", 2, ())} and all(got[k] == {("param", 1, ("." + k,))} for k in names if k != fld)
    return ok, "%s <- %s; others %s" % (fld, sorted(mine), {k: sorted(v) for k, v in got.items() if k != fld and v != {("param", 1, ("." + k,))}})


def rule_context_constructors(ctx, facts, rule):
    """SpanContext::new / sampled() are field-wise: what a decoder or Span::root reads back is what was put in."""
    prov = Prov(facts)
    cons = [c for c in constructions(facts, SPAN_CONTEXT, crates=["fastrace"]) if c[0].path == "fastrace::collector::id::SpanContext::new"]
    ok = False
    if cons:
        fn, b, s, f = cons[0]
        ok = {sig(x) for x in data_origins(prov.of_operand(fn, f["trace_id"]))} == {("param", 1, ())} and \
            {sig(x) for x in data_origins(prov.of_operand(fn, f["span_id"]))} == {("param", 2, ())}
    ctx.check(ok, rule, "fastrace::collector::id::SpanContext::new", "-", "SpanContext::new(trace_id, span_id) stores its arguments in the fields of the same name", "",
              "field origins differ", extra="new")
    fn = facts.fn("fastrace::collector::id::SpanContext::sampled")
    ok2, why2 = False, "anchor lost"
    if fn is not None:
        ok2, why2 = setter_shape(facts, prov, fn, SPAN_CONTEXT, "sampled")
    ctx.check(ok2, rule, "fastrace::collector::id::SpanContext::sampled", "-", "SpanContext::sampled(flag) sets exactly the sampled field to its argument and returns the context", why2,
              "setter shape differs: %s" % why2, extra="sampled")


def rule_pairs_keep_orientation(ctx, facts, rule):
    """C06-R7: wherever a (key, value) pair is converted (`|(k, v)| (k.into(), v.into())`), the key stays the key."""
    prov = Prov(facts)
    n = 0
    for f in facts.fns.values():
        if f.crate != "fastrace" or f.kind != "Closure" or EXCLUDE.search(f.path):
            continue
        if not re.fullmatch(r"\(alloc::borrow::Cow<'\w*, str>, alloc::borrow::Cow<'\w*, str>\)", f.locals[0]):
            continue
        if f.arg_count < 2 or not f.locals[2].startswith("("):
            continue
        n += 1
        k = data_origins(prov.of_local(f, 0, (".0",)))
        v = data_origins(prov.of_local(f, 0, (".1",)))
        okk = bool(k) and all(x.kind == "param" and x.key == 2 and x.path[:1] == (".0",) for x in k if x.kind in ("param", "upvar"))
        okv = bool(v) and all(x.kind == "param" and x.key == 2 and x.path[:1] == (".1",) for x in v if x.kind in ("param", "upvar"))
        ctx.check(okk and okv, rule, f.path, f.span, "the pair conversion keeps key and value in place", "key %s value %s" % (origin_strs(k, 2), origin_strs(v, 2)),
                  "key origins %s, value origins %s" % (origin_strs(k), origin_strs(v)), extra="pair")
    ctx.floor(rule, "fastrace", n, 4, "(key, value) conversion closures")


def rule_config(ctx, facts, rule):
    """The default configuration is the non-cancelable one, and the builder methods set exactly the field they name."""
    prov = Prov(facts)
    CFG = "fastrace::collector::Config"
    d = [c for c in constructions(facts, CFG, crates=["fastrace"]) if c[0].path.endswith("as core::default::Default>::default")]
    ok = False
    detail = "no construction in Default::default"
    if d:
        fn, b, s, f = d[0]
        canc = data_origins(prov.of_operand(fn, f["cancelable"]))

        def is_false(x):
            if x.kind != "const":
                return False
            if str(x.key) == "false":
                return True
            c = facts.consts.get(str(x.key))          # a named constant (`Config::DEFAULT_CANCELABLE`)
            return bool(c) and c.get("v") in (0, False) and c.get("ty", "bool") == "bool"
        ok = bool(canc) and all(is_false(x) for x in canc)
        detail = "cancelable <- %s, report_interval <- %s" % (origin_strs(canc), origin_strs(prov.of_operand(fn, f["report_interval"]), 3))
    ctx.check(ok, rule, "<%s as Default>::default" % CFG, "-", "Config::default() is the non-cancelable configuration", detail, detail, extra="default")
    for meth, fld in (("cancelable", "cancelable"), ("report_interval", "report_interval")):
        fn = facts.fn(CFG + "::" + meth)
        ok, detail = (False, "anchor lost") if fn is None else setter_shape(facts, prov, fn, CFG, fld)
        ctx.check(ok, rule, CFG + "::" + meth, "-", "Config::%s(x) sets %s to x and keeps the other settings" % (meth, fld), detail, detail, extra=meth)


def rule_reporter_ready(ctx, facts, rule):
    """REPORTER_READY becomes true only after the collector exists; reporter_ready() reads it un-negated."""
    prov = Prov(facts)
    sr = facts.fn("fastrace::collector::global_collector::set_reporter")
    if sr is not None:
        st = sr.calls_re(r"GlobalCollector::start$", cleanup=False)
        stores = [b for b in sr.calls_re(r"atomic::Atomic(Bool)?(::<bool>)?::store$", cleanup=False)]
        ok = bool(st) and bool(stores) and all(any(sr.dominates(a, b) for a in st) for b in stores) and \
            all(sr.term(b)["args"][1].get("v") == 1 for b in stores)
        ctx.check(ok, rule, sr.path, sr.span, "set_reporter marks the reporter ready (store(true)) only after GlobalCollector::start returned", "",
                  "start sites %s, store sites %s" % (st, stores), extra="store")
    rr = facts.fn("fastrace::collector::global_collector::reporter_ready")
    if rr is not None:
        ret = data_origins(prov.of_local(rr, 0))
        ok = bool(ret) and all(any(v[0] == "call" and re.search(r"atomic::Atomic(Bool)?(::<bool>)?::load$", v[1]) for v in x.via) for x in ret if x.kind != "agg") and \
            not any(v[0] == "unop" for x in ret for v in x.via) and any(x.kind == "static" and str(x.key).endswith("REPORTER_READY") for x in ret)
        ctx.check(ok, rule, rr.path, rr.span, "reporter_ready() is the value of REPORTER_READY, not negated", "", "origins %s" % origin_strs(ret), extra="load")


def rule_collect_ids(ctx, facts, rule):
    """start_collect hands out a fresh id and announces exactly that id to the collector. Fresh means: the value IS the result of one
    fetch_add on the process-wide counter; an id that is computed (per-thread blocks, arithmetic on a cached value) may be unique or
    not -- that is arithmetic this rule cannot follow, and two live traces with one id cancel / commit each other."""
    from .core import inline_calls
    prov = Prov(facts)
    fn0 = facts.fn("fastrace::collector::global_collector::GlobalCollect::start_collect")
    if fn0 is None:
        ctx.fail(rule, "GlobalCollect::start_collect", "-", "anchor exists", "anchor lost", extra="anchor")
        return
    fn = inline_calls(facts, fn0, lambda g: g.path.startswith("fastrace::collector::") and not re.search(r"send_command$|force_send_command$", g.path)
                      and " as " not in g.path, depth=3)
    FA = r"atomic::Atomic(Usize)?(::<usize>)?::fetch_add$"
    fa = fn.calls_re(FA, cleanup=False)
    ok = bool(fa) and all(fn.term(x)["args"][1].get("v") not in (0, None) for x in fa)
    ret = prov.of_local(fn, 0)
    not_counter = [x for x in ret if x.kind not in ("const", "agg") and not any(v[0] == "call" and re.search(FA, v[1]) for v in x.via)]
    computed = [x for x in ret if any(v[0] in ("binop", "checked_binop") for v in x.via)]
    cons = [c for c in constructions(facts, "fastrace::collector::command::StartCollect", crates=["fastrace"]) if c[0] is fn0]
    same = False
    if cons and fa:
        rl = root_local(fn, cons[0][3]["collect_id"])[0]
        rr = root_local(fn, {"k": "copy", "l": 0, "p": []})[0]
        same = rl == rr or rl in {fn.term(x)["dest"]["l"] for x in fa} and len(fa) == 1 and \
            any(x.kind != "const" and any(v[0] == "call" and v[2] == fa[0] for v in x.via) for x in ret)
    ctx.check(ok and same and not not_counter and not computed, rule, fn0.path, fn0.span,
              "start_collect returns the result of NEXT_COLLECT_ID.fetch_add(c != 0) itself and sends StartCollect with the same id", "",
              "fetch_add sites %s, same id sent and returned: %s, origins of the id that are not the counter: %s, arithmetic on the id: %s"
              % (fa, same, origin_strs(not_counter, 4), origin_strs(computed, 3)), extra="ids")


def rule_not_sampled_sentinel(ctx, facts, rule):
    """Unsampled roots carry a reserved collect id; their drop / cancel still sends CommitCollect / DropCollect for it. The
    reserved value must be one the generator (NEXT_COLLECT_ID counting up from its initial value) cannot hand out: usize::MAX."""
    cs = [c for p, c in facts.consts.items() if p.endswith("::NOT_SAMPLED_COLLECT_ID")]
    if not cs:
        ctx.fail(rule, "fastrace::collector::global_collector::NOT_SAMPLED_COLLECT_ID", "-", "the reserved collect id of unsampled roots exists",
                 "anchor lost: no constant NOT_SAMPLED_COLLECT_ID", extra="sentinel")
        return
    v = cs[0].get("v")
    ctx.check(v == (1 << 64) - 1, rule, cs[0]["path"], "-",
              "the collect id reserved for unsampled roots is usize::MAX, which the id generator (counting up from 0) never hands out",
              "value %s" % v,
              "NOT_SAMPLED_COLLECT_ID = %s: a sampled trace can be given the same id, and finishing or cancelling any unsampled root then "
              "commits / cancels that trace" % v, extra="sentinel")


def rule_attachments_are_new_entries(ctx, facts, rule):
    """C06-R1b: a local event / property set is always recorded as a new pseudo-span under the current innermost span;
    it is never merged into an entry recorded earlier (whose parent may be a span that has finished since)."""
    from . import scopes
    prov = Prov(facts)
    for name in ("add_event", "add_properties"):
        fn = facts.fn("fastrace::local::span_queue::SpanQueue::" + name)
        if fn is None:
            ctx.fail(rule, "SpanQueue::" + name, "-", "anchor exists", "anchor lost", extra="anchor")
            continue
        pushes = scopes.field_pushes(fn, prov, "span_queue", "RawSpan")
        refuse, accept = scopes.capacity_edges(fn, prov, "span_queue")
        ok, wit = fn.must_pass([(a, d) for a, d, _ in accept], pushes) if accept else (False, None)
        touch = [fn.loc(b) for b in fn.calls_re(r"(last_mut|first_mut|get_mut|iter_mut|IndexMut(<.*>)?>?::index_mut|split_last_mut)$", cleanup=False)
                 if has_origin(prov.of_operand(fn, fn.term(b)["args"][0]), kind="param", key=1, path_suffix=(".span_queue",))]
        ctx.check(ok and bool(pushes) and not touch, rule, fn.path, fn.span,
                  "SpanQueue::%s pushes a new entry on every accepted path and never modifies an entry recorded earlier" % name,
                  "push at %s" % [fn.loc(b) for b in pushes],
                  "accepted path without a push (bb%s) or earlier entries modified at %s" % (wit, touch), extra="new-entry")


def rule_danglings_key_unique(ctx, facts, rule):
    """C06-R8: the key under which attachments are parked must identify ONE delivered record. Records of one trace share
    a span id whenever a multi-parent span has two parents in the same trace (one copy per parent, same id), so either
    the key includes the copy's parent, or token assembly must refuse / merge parents of the same trace."""
    adt = facts.adts.get("fastrace::collector::global_collector::ActiveCollector")
    if adt is None:
        ctx.fail(rule, "ActiveCollector", "-", "anchor exists", "anchor lost", extra="danglings-key")
        return
    f = [x for x in adt["variants"][0]["fields"] if "DanglingItem" in x["ty"]]
    key = None
    if f:
        m = re.search(r"HashMap<([^,]+(?:\([^)]*\))?), ", f[0]["ty"])
        key = m.group(1) if m else None
    key_has_parent = bool(key) and key.strip().startswith("(")
    ewp = facts.fn("fastrace::span::Span::enter_with_parents")
    dedup = False
    if ewp is not None:
        bodies = [ewp] + facts.closures_of(ewp)
        dedup = any(g.calls_re(r"::(dedup\w*|contains|insert|entry|sort\w*|unique)$", cleanup=False) for g in bodies) and \
            any(".collect_id" in "".join(o.path) for g in bodies for b in g.calls() for a in g.term(b)["args"]
                for o in Prov(facts).of_operand(g, a))
    ctx.check(key_has_parent or dedup, rule, adt["path"], adt["span"],
              "attachments are parked under a key that identifies one delivered record (copies of a multi-parent span within one "
              "trace are told apart), or a token cannot carry two parents of the same trace",
              "key type %s" % key,
              "danglings are keyed by %s alone and Span::enter_with_parents accepts two parents of one trace: both copies of the "
              "span carry the same id, the first copy mounted takes every attachment (twice), the second gets none -- "
              "let m = Span::enter_with_parents(\"m\", [&root, &child_of_root]); m.add_property(..); m.add_event(..)" % key,
              extra="danglings-key")


def rule_mount_appends_only(ctx, facts, rule):
    """mount_danglings appends what was parked and does nothing else to a record's events / properties: no dedup, sort,
    retain, truncate ... (two attachments with equal content are two attachments)."""
    prov = Prov(facts)
    fn = ctx.need_fn(facts, "fastrace::collector::global_collector::mount_danglings", rule)
    if fn is None:
        return
    bad = []
    n = 0
    for g in [fn] + facts.closures_of(fn):
        for b in g.calls_re(r"alloc::vec::Vec::<T, A>::\w+$|slice::<impl \[T\]>::\w+$", cleanup=False):
            t = g.term(b)
            src = prov.of_operand(g, t["args"][0]) if t["args"] else set()
            if not any(o.path and o.path[-1] in (".events", ".properties") and ".danglings" not in o.path for o in src if o.kind in ("param", "cparam", "upvar", "call")):
                continue
            if not any(x in t["arg_tys"][0] for x in ("EventRecord", "Cow<")):
                continue
            n += 1
            op = t["callee"].rsplit("::", 1)[1]
            if op not in ("extend", "push", "append", "reserve", "extend_from_slice", "len", "is_empty", "iter", "as_slice", "capacity"):
                bad.append((g.loc(b), op))
    ctx.check(not bad, rule, fn.path, fn.span, "mounting only appends to record.events / record.properties (nothing is deduplicated, sorted, dropped)",
              "%d operations on the record's lists" % n, "other operations on the record's lists: %s" % bad, extra="appends-only")


def rule_mount_scope(ctx, facts, rule):
    """Attachments parked for one collection are mounted only on the records that collection has just produced: the slice
    handed to mount_danglings starts at the batch's length taken before the collection's records were appended (or is a
    fresh container). Span ids are unique per trace only: a set pushed to N parents yields N copies with the same ids in N
    traces, and a look-up over the whole batch hands the first copy the attachments of all the others."""
    prov = Prov(facts)
    fn = ctx.need_fn(facts, "fastrace::collector::global_collector::postprocess_span_collection", rule)
    if fn is None:
        return
    mounts = fn.calls_re(r"global_collector::mount_danglings$", cleanup=False)
    if not mounts:
        ctx.fail(rule, fn.path, fn.span, "postprocess_span_collection mounts parked attachments", "anchor lost: no mount_danglings call", extra="mount-scope")
        return
    producers = [b for b in fn.calls_re(r"global_collector::amend_(local_)?span$", cleanup=False)]
    # one table: what a batch cannot place yet is parked in the very table the trace keeps across cycles (the parameter), and what is
    # mounted is taken from that table. A scratch table per batch that is merged afterwards makes the order of an early (parked) and a
    # late (fresh) attachment of one span depend on the merge
    tables_ok, n_tab = True, 0
    for b in producers + mounts:
        t = fn.term(b)
        for i, ty in enumerate(t.get("arg_tys", [])):
            if "HashMap<fastrace::collector::id::SpanId" in ty and i < len(t["args"]):
                n_tab += 1
                src = prov.of_operand(fn, t["args"][i])
                if not any(o.kind == "param" for o in src):
                    tables_ok = False
                    ctx.fail(rule, fn.path, fn.loc(b), "attachments are parked in, and mounted from, the table the trace keeps across cycles "
                             "(postprocess_span_collection's own parameter)",
                             "the table handed to %s is local to the call (%s): attachments parked by an earlier cycle and attachments arriving "
                             "with the record are mounted from two tables, and their order on the record is no longer the order they were made in"
                             % (t["callee"].rsplit("::", 1)[1], origin_strs(src, 3)), extra="one-table")
    if tables_ok:
        # (producers that take the table inside a parameter struct show no table argument of their own: the mount call still does)
        ctx.check(n_tab > 0, rule, fn.path, fn.span,
                  "attachments are parked in, and mounted from, the table the trace keeps across cycles", "%d table arguments, all the parameter" % n_tab,
                  "anchor lost: amend_* / mount_danglings take no HashMap<SpanId, _> argument", extra="one-table")
    ctx.check(len(mounts) == 1, rule, fn.path, fn.loc(mounts[0]), "attachments are mounted by one mount_danglings call per batch", "",
              "%d mount_danglings calls: the second one appends behind what the first one placed, whatever was attached first" % len(mounts), extra="mount-calls")
    for m in mounts:
        t = fn.term(m)
        if fn.on_cycle(m):
            ctx.fail(rule, fn.path, fn.loc(m), "attachments are mounted once, after every collection of the call has produced its records",
                     "mount_danglings runs inside the loop over the collections: an attachment that is read after its target's record "
                     "(another thread's queue, same cycle) meets a slice that no longer contains that record", extra="mount-once")
        src = prov.of_operand(fn, t["args"][0])
        batch = [o for o in src if o.kind == "param"]
        if not batch:
            ctx.ok(rule, fn.path, fn.loc(m), "attachments are mounted on this collection's records only", "mounted on a container local to the call",
                   extra="mount-scope")
            continue
        ok = False
        detail = "the whole batch is handed to mount_danglings"
        for o in batch:
            for v in o.via:
                if v[0] == "call" and re.search(r"IndexMut<I>>::index_mut$|<impl \[T\]>::(get_mut|split_at_mut)$|Vec::<T, A>::(split_at_mut|get_mut)$|"
                                                r"iterator::Iterator::skip$", v[1]):
                    it = fn.term(v[2])
                    rng = prov.of_operand(fn, it["args"][1]) if len(it["args"]) > 1 else []
                    lens = [w[2] for r in rng for w in r.via if w[0] == "call" and re.search(r"Vec::<T, A>::len$", w[1])]
                    lens += [r.via[-1][2] for r in rng if r.kind == "call" and str(r.key).endswith("::len") and r.via]
                    if lens and all(all(fn.dominates(l, pb) for pb in producers) for l in lens) and producers:
                        ok = True
                    else:
                        detail = "slice start origins %s; producers %s" % (origin_strs(rng), producers)
        ctx.check(ok, rule, fn.path, fn.loc(m), "attachments are mounted on this collection's records only (the slice starts at the batch length "
                  "taken before the collection's records were appended)", "start = len() taken before %d producer calls" % len(producers),
                  detail + ": a record of another trace that carries the same span id (copies of one local-span set pushed to several "
                  "parents) receives this collection's events / properties", extra="mount-scope")



def rule_whole_token_inherited(ctx, facts, rule):
    """A span created under a parent inherits the parent's whole collect token: one item per trace the parent belongs to (a span made by
    enter_with_parents has several). In fastrace::span nothing takes 'the first' / 'some' of the items issue_collect_token() yields --
    an item-wise selection hands the child the membership of one trace only, and which one depends on the order the parents were listed."""
    SEL = re.compile(r"Iterator>?::(next|nth|last|take|take_while|skip|skip_while|find\w*|filter\w*|step_by|min\w*|max\w*|position|reduce|fold)$")
    prov = Prov(facts)
    bad, n = [], 0
    for p, fn in facts.fns.items():
        if fn.crate != "fastrace" or not p.startswith("fastrace::span::") or EXCLUDE.search(p):
            continue
        issues = fn.calls_re(r"span::SpanInner::issue_collect_token$", cleanup=False)
        if not issues:
            continue
        n += len(issues)
        for b in fn.calls():
            t = fn.term(b)
            if fn.blocks[b]["cleanup"] or not t["args"] or not SEL.search(t["callee"]):
                continue
            if t["callee"].endswith("::next") and fn.on_cycle(b):
                continue        # a `for` loop over all items
            src = prov.of_operand(fn, t["args"][0])
            if any(v[0] == "call" and v[1].endswith("issue_collect_token") for o in src for v in o.via) or \
                    any(o.kind == "call" and str(o.key).endswith("issue_collect_token") for o in src):
                bad.append((p, fn.loc(b), t["callee"].rsplit("::", 1)[1]))
    ctx.check(not bad and n >= 2, rule, "fastrace::span::SpanInner::issue_collect_token", "-",
              "in fastrace::span every consumer of issue_collect_token() takes all items (collect / flat_map / a loop), none selects among them",
              "%d issue sites" % n, "selecting consumers: %s (issue sites found: %d, 3 confirmed by hand on the pinned tree)" % (bad, n), extra="whole-token")


def rule_record_fields_final(ctx, facts, rule, fields=(".trace_id", ".span_id", ".parent_id", ".name", ".begin_time_unix_ns", ".duration_ns")):
    """A record's ids, name and times are fixed where the record is built (amend_span / amend_local_span): nothing assigns to them
    afterwards. (A later pass that 'repairs' parents -- adopting orphans, flattening -- delivers a tree the program did not create.)"""
    bad, n = [], 0
    for p, fn in facts.fns.items():
        if fn.crate != "fastrace" or EXCLUDE.search(p):
            continue
        for b, blk in enumerate(fn.blocks):
            if blk["cleanup"]:
                continue
            for st in blk["stmts"]:
                if st["k"] != "assign" or not st["lhs"]["p"]:
                    continue
                flds = [q for q in st["lhs"]["p"] if q != "*"]
                if not flds or flds[-1] not in fields:
                    continue
                l, f2 = root_local(fn, {"k": "copy", "l": st["lhs"]["l"], "p": [q for q in st["lhs"]["p"][:-1]]})
                tys = fn.locals[l] + " " + fn.locals[st["lhs"]["l"]]
                if "SpanRecord" in tys and "RawSpan" not in fn.locals[st["lhs"]["l"]]:
                    n += 1
                    bad.append((p, fn.loc(b), flds[-1]))
    ctx.check(not bad, rule, "fastrace::collector::SpanRecord", "-",
              "no field of a built SpanRecord that identifies or times it (trace_id, span_id, parent_id, name, begin, duration) is assigned after construction",
              "no assignment sites", "assignments to a record's fields: %s" % bad, extra="record-final")


def rule_record_attachments_only_mounted(ctx, facts, rule):
    """Who may add to a finished record: events and properties are appended to a SpanRecord in mount_danglings only, which looks the
    record up by the id the attachment was made under. Any other site that pushes onto `record.events` / `record.properties` hands a
    record something that was attached elsewhere (e.g. leftovers of a span that never arrived 'adopted' by the root)."""
    bad, n = [], 0
    for p, fn in facts.fns.items():
        if fn.crate != "fastrace" or EXCLUDE.search(p):
            continue
        for b in fn.calls_re(r"alloc::vec::Vec::<T, A>::(push|extend\w*|append|insert|splice)$|Extend(<.*>)?>?::extend$", cleanup=False):
            t = fn.term(b)
            if not t["args"] or t["args"][0]["k"] not in ("copy", "move"):
                continue
            l, flds = root_local(fn, t["args"][0])
            if not flds or flds[-1] not in (".events", ".properties"):
                continue
            if "SpanRecord" not in fn.locals[l]:
                continue
            n += 1
            if not re.search(r"global_collector::mount_danglings(::\{closure#\d+\})*$", p):
                bad.append((p, fn.loc(b), flds[-1]))
    ctx.check(not bad and n >= 2, rule, "fastrace::collector::global_collector::mount_danglings", "-",
              "events and properties are appended to a finished record by mount_danglings only (looked up by the id they were attached under)",
              "%d append sites, all in mount_danglings" % n,
              "other sites appending to a record's events / properties: %s (found %d sites in all, 2 confirmed by hand on the pinned tree)" % (bad, n),
              extra="record-writers")


def rule_rawspan_copy_keeps_times(ctx, facts, rule):
    """A copy of a recorded span is the same span: `<RawSpan as Clone>::clone` (hand-written or derived) hands every id and
    time stamp of `self` over unchanged. In particular end_instant is copied, not reset to the "still open" sentinel
    (a finished span that is cloned on its way to the collector would be closed again at the collection time)."""
    from .core import inline_calls
    RAW = "fastrace::local::raw_span::RawSpan"
    path = "<%s as core::clone::Clone>::clone" % RAW
    fn = facts.fn(path)
    if fn is None:
        # RawSpan is not Clone at all: nothing can copy a span
        ctx.ok(rule, path, "-", "RawSpan has no Clone impl: a recorded span cannot be duplicated", "", extra="clone-times")
        return
    view = inline_calls(facts, fn, lambda g: g.crate == fn.crate and g.path.startswith(RAW + "::"), depth=2)
    prov = Prov(facts)
    aggs = [(b, s) for b, blk in enumerate(view.blocks) if not blk["cleanup"] for s in blk["stmts"]
            if s["k"] == "assign" and s["rv"]["k"] == "agg" and s["rv"].get("adt") == RAW]
    if not aggs:
        ctx.fail(rule, path, fn.span, "RawSpan::clone builds a RawSpan", "anchor lost: no RawSpan aggregate in clone (or what it calls)",
                 extra="clone-times")
        return
    bad = []
    for fld in ("id", "parent_id", "begin_instant", "end_instant"):
        srcs = set()
        for b, s in aggs:
            f = dict(zip(s["rv"]["fields"], s["rv"]["ops"]))
            if fld in f:
                srcs |= set(data_origins(prov.of_operand(view, f[fld])))
        # later stores into that field of the value being returned
        for b, blk in enumerate(view.blocks):
            if blk["cleanup"]:
                continue
            for s in blk["stmts"]:
                if s["k"] == "assign" and s["lhs"]["p"] and s["lhs"]["p"][-1] == "." + fld and RAW in view.locals[s["lhs"]["l"]]:
                    srcs = set(data_origins(prov._of_rvalue(view, b, s["rv"], (), 0, set()))) | \
                        {o for o in srcs if not (o.kind == "const" or o.kind == "agg")}
        good = bool(srcs) and all(o.kind == "param" and o.key == 1 and tuple(q for q in o.path if q != "*")[-1:] == ("." + fld,) for o in srcs)
        if not good:
            bad.append("%s <- %s" % (fld, origin_strs(srcs, 3)))
    ctx.check(not bad, rule, path, fn.span,
              "a cloned RawSpan carries self's id, parent_id, begin_instant and end_instant unchanged",
              "4 fields copied from self", "not copied from self: %s (a finished span whose copy has end_instant = ZERO is closed at the "
              "collection time instead of its own end)" % "; ".join(bad), extra="clone-times")
