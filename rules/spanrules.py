"""Rules over span.rs / GlobalCollect (shared by several properties)."""
import re

from .core import (Prov, aggs_reaching, transparent_args, bool_cond_edges, callee_is, discr_cond_edges, has_origin, origin_strs, result_switches,
                   root_local, sites_star, first_switches)

GCOLLECT = "fastrace::collector::global_collector::GlobalCollect"
SPAN_DROP = "<fastrace::span::Span as core::ops::drop::Drop>::drop"
GUARD_DROP = "<fastrace::span::LocalParentGuard as core::ops::drop::Drop>::drop"
CMD_ADT = "fastrace::collector::command::CollectCommand"


def is_call(rx):
    return lambda g, t: callee_is(t, rx)


SUBMIT = is_call(re.escape(GCOLLECT) + r"::submit_spans$")
COMMIT = is_call(re.escape(GCOLLECT) + r"::commit_collect$")
DROPC = is_call(re.escape(GCOLLECT) + r"::drop_collect$")
STARTC = is_call(re.escape(GCOLLECT) + r"::start_collect$")


def option_switch_edges(fn, ty_part, variants, place_fields=None):
    """Edges of the first-reached discriminant switches over an Option whose payload type contains ty_part."""
    out = set()

    def pred(info):
        if info.get("kind") != "discr" or "Option<" not in info["ty"] or ty_part not in info["ty"]:
            return False
        return True
    for sb in first_switches(fn, 0, pred):
        out |= set(fn.variant_edges(sb, variants))
    return out


def rule_finish_submits(ctx, facts, rule):
    """C01-R1: finishing a span / ending a local-parent scope submits what was recorded."""
    prov = Prov(facts)
    # (a) Span::drop
    fn = ctx.need_fn(facts, SPAN_DROP, rule)
    if fn is not None:
        sub = sites_star(facts, fn, SUBMIT)
        some = option_switch_edges(fn, "fastrace::span::SpanInner", ["Some"])
        if not some:
            ctx.fail(rule, SPAN_DROP, fn.span, "Span::drop distinguishes a recording span (inner = Some)",
                     "no discriminant switch over Option<SpanInner>", extra="some")
        else:
            ok, wit = fn.must_pass([(a, d) for a, d, _ in some], sub)
            ctx.check(ok and bool(sub), rule, SPAN_DROP, fn.loc(sub[0]) if sub else fn.span,
                      "from the inner=Some edge every path of Span::drop submits the span (GlobalCollect::submit_spans)",
                      "submit sites %s" % [fn.loc(b) for b in sub],
                      "a path from inner=Some returns at bb%s without reaching submit_spans" % wit, extra="span")
    # (b) LocalParentGuard::drop
    fn = ctx.need_fn(facts, GUARD_DROP, rule)
    if fn is not None:
        sub = sites_star(facts, fn, SUBMIT)
        some_inner = option_switch_edges(fn, "LocalParentGuardInner", ["Some"])
        col = fn.calls_re(r"LocalCollector::collect_spans_and_token$", cleanup=False)
        ok_col = False
        if some_inner and col:
            ok_col, _ = fn.must_pass([(a, d) for a, d, _ in some_inner], col)
        ctx.check(ok_col, rule, GUARD_DROP, fn.loc(col[0]) if col else fn.span,
                  "ending a local-parent scope collects the scope's spans (collect_spans_and_token)", "",
                  "inner=Some edge does not always reach collect_spans_and_token", extra="collect")
        # token Some edge -> submit
        tok_edges = set()
        for c in col:
            for sb in result_switches(fn, c, "Option<", proj=[".1"]):
                tok_edges |= set(fn.variant_edges(sb, ["Some"]))
        if not tok_edges:
            # the token may have been moved into a local first
            def pred(info):
                return info.get("kind") == "discr" and "Option<alloc::vec::Vec<fastrace::collector::CollectTokenItem" in info["ty"]
            for sb in first_switches(fn, 0, pred):
                tok_edges |= set(fn.variant_edges(sb, ["Some"]))
        if tok_edges:
            ok, wit = fn.must_pass([(a, d) for a, d, _ in tok_edges], sub)
            ctx.check(ok and bool(sub), rule, GUARD_DROP, fn.loc(sub[0]) if sub else fn.span,
                      "when the scope had a collect token its local spans are submitted", "",
                      "token=Some edge can return at bb%s without submit_spans" % wit, extra="guard")
            if sub:
                # what is submitted is what was collected, under the scope's token
                t = fn.term(sub[0])
                s1 = prov.of_operand(fn, t["args"][1])
                s2 = prov.of_operand(fn, t["args"][2])
                from_col = lambda s: any(v[0] == "call" and "collect_spans_and_token" in v[1] for o in s for v in o.via)
                ctx.check(from_col(s1) and from_col(s2), rule, GUARD_DROP, fn.loc(sub[0]),
                          "the submitted set and token are the ones returned by collect_spans_and_token", "",
                          "origins %s / %s" % (origin_strs(s1), origin_strs(s2)), extra="guard-args")
        else:
            ctx.fail(rule, GUARD_DROP, fn.span, "LocalParentGuard::drop tests the collected token", "no switch on the token", extra="guard")
    # (c) submit_spans only skips the send when the filtered token is empty
    fn = ctx.need_fn(facts, GCOLLECT + "::submit_spans", rule)
    if fn is not None:
        sends = sites_star(facts, fn, is_call(r"global_collector::(send_command|force_send_command)$"))

        def empty_true(o):
            return any(v[0] == "call" and re.search(r"Vec::<T, A>::is_empty$", v[1]) for v in o.via) and o.kind == "param" and o.key == 3
        edges = bool_cond_edges(fn, prov, empty_true, True)
        ok, wit = fn.must_pass([0], sends, avoid_edges=edges)
        ctx.check(ok and bool(sends), rule, fn.path, fn.loc(sends[0]) if sends else fn.span,
                  "submit_spans sends the set unless the (sampled-filtered) token is empty",
                  "skip edges %s" % sorted((a, b) for a, b, _ in edges),
                  "a path returns at bb%s without send_command and without the token being empty" % wit, extra="submit")


SPAN_NEW = "fastrace::span::Span::new"


def span_builds(facts):
    """Every place a recording span comes into being: the SpanInner aggregates, seen from the API-level functions with
    the private constructor (Span::new on the confirmed tree; new_root / new_child / SpanInner::begin after a refactoring)
    looked through. -> [(view Fn, block, {field: operand})]"""
    from .core import inline_calls
    has_callers = any(g.calls(lambda t: t["callee"] == SPAN_NEW) for g in facts.fns.values())
    out = []
    for g in list(facts.fns.values()):
        if g.crate != "fastrace" or (g.path == SPAN_NEW and has_callers):
            continue
        v = inline_calls(facts, g, lambda h: h.path == SPAN_NEW, depth=2) if g.calls(lambda t: t["callee"] == SPAN_NEW) else g
        for b, blk in enumerate(v.blocks):
            if blk["cleanup"]:
                continue
            for st in blk["stmts"]:
                if st["k"] == "assign" and st["rv"]["k"] == "agg" and st["rv"].get("adt") == "fastrace::span::SpanInner":
                    out.append((v, b, dict(zip(st["rv"]["fields"], st["rv"]["ops"]))))
    return out


def rule_signals_forced(ctx, facts, rule, kinds=("CommitCollect", "DropCollect")):
    """C01-R2ab: finish and cancel signals go through the never-dropping path."""
    prov = Prov(facts)
    found = {k: 0 for k in kinds}
    other = {"StartCollect": [], "SubmitSpans": []}
    SENDS = ("fastrace::collector::global_collector::send_command", "fastrace::collector::global_collector::force_send_command")
    # from each send site backwards: which command variants built in that function can be the argument
    flows = {}           # (fn.path, variant, block) -> set of send callees
    built = []
    for fn in facts.fns.values():
        if fn.crate != "fastrace":
            continue
        for b, blk in enumerate(fn.blocks):
            for s in blk["stmts"]:
                if s["k"] == "assign" and s["rv"]["k"] == "agg" and s["rv"].get("adt") == CMD_ADT:
                    built.append((fn, s["rv"]["variant"], b))
                    flows.setdefault((fn.path, s["rv"]["variant"], b), set())
        for cb in fn.calls():
            t = fn.term(cb)
            if not t["args"]:
                continue
            for a in t["args"]:
                for v, vb in aggs_reaching(fn, a, CMD_ADT):
                    flows.setdefault((fn.path, v, vb), set()).add(t["callee"])
    for fn, v, b in built:
        callees = sorted(c for c in flows.get((fn.path, v, b), ()) if not (transparent_args(c) is not None or c.endswith("::drop")))
        if v in kinds:
            found[v] += 1
            ctx.check(callees == ["fastrace::collector::global_collector::force_send_command"], rule, fn.path, fn.loc(b),
                      "a %s command is handed to force_send_command and to nothing else" % v,
                      "", "constructed %s flows into %s: a full queue would silently drop the signal" % (v, callees),
                      extra="force-" + v)
        elif v in other:
            other[v].append((fn.path, callees))
    for k in kinds:
        ctx.floor(rule, CMD_ADT, found[k], 1, "constructions of CollectCommand::%s" % k)
    # ... and unconditionally: the entry points of the collector interface send their signal on every path (a commit elided because
    # "the cancel already removed the entry" leaves the entry behind whenever the cancel was a no-op: not cancelable, another thread ..)
    for meth, k in (("commit_collect", "CommitCollect"), ("drop_collect", "DropCollect")):
        if k not in kinds:
            continue
        g = facts.fn("fastrace::collector::global_collector::GlobalCollect::" + meth)
        if g is None:
            ctx.fail(rule, "fastrace::collector::global_collector::GlobalCollect::" + meth, "-", "anchor exists", "anchor lost", extra="always-" + k)
            continue
        sites = sites_star(facts, g, is_call(r"global_collector::force_send_command$"))
        ok, wit = g.must_pass([0], sites) if sites else (False, None)
        ctx.check(ok, rule, g.path, g.span, "GlobalCollect::%s sends its %s on every path" % (meth, k), "",
                  "a path returns (bb%s) without force_send_command: the signal is elided" % wit, extra="always-" + k)
    fs = ctx.need_fn(facts, "fastrace::collector::global_collector::force_send_command", rule)
    if fs is not None:
        sites = sites_star(facts, fs, is_call(r"spsc::Sender::<T>::force_send$"))
        ok, wit = fs.must_pass([0], sites)
        # try_with may fail during thread teardown; that is the only accepted way out (no sender exists any more)
        ctx.check(bool(sites) and ok, rule, fs.path, fs.span,
                  "force_send_command reaches Sender::force_send on every path (through LocalKey::try_with)", "",
                  "a path avoids the force_send site (bb%s)" % wit, extra="force_send")
        ctx.check(not fs.calls_re(r"spsc::Sender::<T>::send$") and not [
            c for c in facts.closures_of(fs) if c.calls_re(r"spsc::Sender::<T>::send$")], rule, fs.path, fs.span,
            "force_send_command does not use the droppable Sender::send", "", "calls Sender::send", extra="not-send")
    return other


def rule_cancel_roots_only(ctx, facts, rule):
    """C04-R1: cancel() reaches drop_collect only for root spans."""
    prov = Prov(facts)
    fn = ctx.need_fn(facts, "fastrace::span::Span::cancel", rule)
    if fn is not None:
        sites = sites_star(facts, fn, DROPC)
        some_inner = discr_cond_edges(fn, prov, r"Option<fastrace::span::SpanInner>", ["Some"])
        some_cid = discr_cond_edges(fn, prov, r"^core::option::Option<usize>$", ["Some"],
                                    place_pred=lambda p: ".collect_id" in p["p"])
        # also accepted: one test on a value derived from both (inner.as_ref().and_then(|i| i.collect_id.map(..)))
        for sb in range(len(fn.blocks)):
            info = fn.switch_info(sb)
            if info and info.get("kind") == "discr" and "Option<" in info["ty"] and not fn.blocks[sb]["cleanup"]:
                src = prov.of_place(fn, info["place"])
                if any(o.kind == "param" and o.key == 1 and ".inner" in o.path for o in src):
                    some_inner = set(some_inner) | set(fn.variant_edges(sb, ["Some"]))
                if any(o.kind == "param" and o.key == 1 and ".collect_id" in o.path for o in src):
                    some_cid = set(some_cid) | set(fn.variant_edges(sb, ["Some"]))
        g1 = fn.guarded(sites, some_inner) and bool(some_inner)
        g2 = fn.guarded(sites, some_cid) and bool(some_cid)
        ctx.check(bool(sites) and g1 and g2, rule, fn.path, fn.loc(sites[0]) if sites else fn.span,
                  "Span::cancel sends DropCollect only under inner=Some and collect_id=Some (root spans)",
                  "guards inner %s, collect_id %s" % (sorted((a, b) for a, b, _ in some_inner), sorted((a, b) for a, b, _ in some_cid)),
                  "drop_collect sites %s guarded by inner=Some: %s, by collect_id=Some: %s" % (sites, g1, g2), extra="guard")
        if sites:
            src = prov.of_operand(fn, fn.term(sites[0])["args"][1])
            ctx.check(has_origin(src, kind="param", key=1, path_suffix=(".collect_id",)), rule, fn.path, fn.loc(sites[0]),
                      "the id sent is the span's own collect_id", "", "origins %s" % origin_strs(src), extra="id")
    # collect_id is Some only where Span::root builds the span
    builds = span_builds(facts)
    hosts = set()
    for g, b, f in builds:
        host = re.sub(r"(::\{closure#[^}]*\})+$", "", g.path)
        hosts.add(host)
        src = prov.of_operand(g, f["collect_id"]) if "collect_id" in f else set()
        is_none = bool(src) and all(o.kind == "agg" and o.key.endswith("Option::None") for o in src)
        if host == "fastrace::span::Span::root":
            ctx.ok(rule, g.path, g.loc(b), "Span::root passes Some(collect_id)", origin_strs(src).__str__(), extra="new-root")
        else:
            ctx.check(is_none, rule, g.path, g.loc(b),
                      "only Span::root creates spans with collect_id = Some (non-root spans cannot cancel or commit a trace)",
                      "None", "a span is built with collect_id origins %s" % origin_strs(src), extra="new")
    ctx.floor(rule, "fastrace::span::SpanInner", len(builds), 3, "places where a recording span is built")
    # which constructor of Span hosts a build is free (each one is checked above for collect_id = None unless it is Span::root);
    # what matters is that nothing outside Span's own constructors builds a recording span
    outside = sorted(h for h in hosts if not (re.fullmatch(r"fastrace::span::Span::(root|enter_with_\w+)", h) or h == SPAN_NEW))
    ctx.check(not outside, rule, "fastrace::span::SpanInner", "-",
              "recording spans are built only by Span's own constructors (root, enter_with_*; through the private constructor)", "",
              "SpanInner constructed in %s" % outside, extra="builders")


def rule_fanout(ctx, c, rule):
    """C04-R5 / C02-R5: the per-item loop over a multi-item token only ends by exhaustion."""
    fn = c.fn
    n = 0
    for x in fn.calls_re(r"Iterator>?::next$", cleanup=False):
        src = c.prov.of_operand(fn, fn.term(x)["args"][0])
        if not (c.from_role(src, "submit") and any(".collect_token" in o.path for o in src)):
            continue
        n += 1
        body = {b for b in fn.natural_loop(x) if not fn.blocks[b]["cleanup"]}
        none = set()
        for sb in result_switches(fn, x):
            none |= {(a, d) for a, d, _ in fn.variant_edges(sb, ["None"])}
        exits = set()
        for b in body:
            for d in fn.succs(b):
                if d not in body and fn.term(d)["k"] != "unreachable":
                    exits.add((b, d))
        extra = exits - none
        ctx.check(not extra, rule, fn.path, fn.loc(x),
                  "the loop that fans a span set out to every token item leaves only when the items are exhausted",
                  "exit edges %s" % sorted(exits),
                  "additional exit edges %s: later parents' traces would not receive their copy" % sorted(extra), extra="loop")
    ctx.floor(rule, fn.path, n, 1, "per-item loops over a submitted collect token")


def rule_drop_order(ctx, facts, rule):
    """C03-R3: a root's own record precedes its commit in the queue."""
    fn = ctx.need_fn(facts, SPAN_DROP, rule)
    if fn is None:
        return
    sub = sites_star(facts, fn, SUBMIT)
    com = sites_star(facts, fn, COMMIT)
    ok = bool(sub) and bool(com) and all(any(fn.dominates(s, c) and s != c for s in sub) for c in com)
    ctx.check(ok, rule, SPAN_DROP, fn.loc(com[0]) if com else fn.span,
              "in Span::drop the span is submitted before the trace is committed",
              "submit %s dominates commit %s" % ([fn.loc(b) for b in sub], [fn.loc(b) for b in com]),
              "submit sites %s do not dominate commit sites %s" % (sub, com), extra="order")
    # the commit is sent for the span's own collect id, when it has one
    if com:
        prov = Prov(facts)
        src = prov.of_operand(fn, fn.term(com[0])["args"][1])
        ctx.check(has_origin(src, path_suffix=(".collect_id",)), rule, SPAN_DROP, fn.loc(com[0]),
                  "the committed id is the span's own collect_id", "", "origins %s" % origin_strs(src), extra="id")
        some_cid = discr_cond_edges(fn, prov, r"^core::option::Option<usize>$", ["Some"])
        ok2, wit = fn.must_pass([(a, d) for a, d, _ in some_cid], com) if some_cid else (False, None)
        ctx.check(ok2, rule, SPAN_DROP, fn.loc(com[0]),
                  "a root span (collect_id = Some) always commits its trace when dropped", "",
                  "collect_id=Some edge can return at bb%s without commit_collect" % wit, extra="commit")


def rule_noop_only_without_parent(ctx, facts, rule):
    """Span::enter_with_parents answers with a no-op span only when *no* parent records: every path to the no-op result crosses
    the `token.is_empty()` edge of the token collected from all parents. (Deciding from the first parent, or from the parents'
    sampling flags, drops a span that some parent's trace must receive -- and a child of an unsampled span is still a span of
    that trace: it carries the trace's id and decision on, and opens its own scope.)"""
    fn = ctx.need_fn(facts, "fastrace::span::Span::enter_with_parents", rule)
    if fn is None:
        return
    prov = Prov(facts)
    noops = [b for b in fn.calls_re(r"fastrace::span::Span::noop$", cleanup=False)]
    def is_none(op):
        if op["k"] not in ("copy", "move") or op["p"]:
            return False
        sd = fn.single_def(op["l"])
        return bool(sd) and sd[1] != "term" and sd[2]["k"] == "assign" and sd[2]["rv"]["k"] == "agg" and sd[2]["rv"].get("variant") == "None"
    noops += [b for b, blk in enumerate(fn.blocks) if not blk["cleanup"] for st in blk["stmts"]
              if st["k"] == "assign" and st["rv"]["k"] == "agg" and st["rv"].get("adt") == "fastrace::span::Span"
              and st["rv"]["ops"][:1] and is_none(st["rv"]["ops"][0])]
    if not noops:
        ctx.ok(rule, fn.path, fn.span, "enter_with_parents never answers with a no-op span of its own accord", "", extra="noop-only-empty")
        return

    def empty_tok(o):
        # the token: collected from the parents (`.collect()`), or a vector the parents' items are pushed into
        return any(v[0] == "call" and v[1].endswith("::is_empty") for v in o.via) and \
            (any(v[0] == "call" and re.search(r"Iterator>?::collect$|FromIterator", v[1]) for v in o.via) or (o.kind == "param" and o.key == 2))
    e = bool_cond_edges(fn, prov, empty_tok, True)
    whole = False
    for b in fn.calls_re(r"::is_empty$", cleanup=False):
        src = prov.of_operand(fn, fn.term(b)["args"][0])
        whole = whole or any(o.kind == "param" and o.key == 2 for o in src)
    ctx.check(bool(e) and whole and fn.guarded(noops, e), rule, fn.path, fn.loc(noops[0]),
              "enter_with_parents returns a no-op span only when the token collected from all parents is empty",
              "no-op sites %s guarded by is_empty edges %s" % (noops, sorted((a, d) for a, d, _ in e)),
              "a no-op span is returned at %s without crossing the `token.is_empty()` edge: a span with a recording parent is dropped "
              "for that parent's trace (and no context / scope exists for it)" % [fn.loc(b) for b in noops], extra="noop-only-empty")
