"""Rules over span.rs / GlobalCollect (shared by several properties)."""
import re

from .core import Prov, bool_cond_edges, callee_is, discr_cond_edges, has_origin, origin_strs, sites_star


def rule_cancel_roots_only(ctx, facts, rule):
    pass


def rule_fanout(ctx, c, rule):
    pass


def rule_signals_forced(ctx, facts, rule, kinds):
    pass
