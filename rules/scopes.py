"""Rules over the local scope stack and bounded containers (C09, C10)."""
import re

from .core import (Prov, bool_cond_edges, callee_is, discr_cond_edges, equal_edges, has_origin, inline_calls, some_guarded_closures, origin_strs, result_switches,
                   root_local, sites_star, first_switches)

STACK = "fastrace::local::local_span_stack::LocalSpanStack::"
LINE = "fastrace::local::local_span_line::SpanLine::"
QUEUE = "fastrace::local::span_queue::SpanQueue::"


def capacity_edges(fn, prov, field):
    """(refuse_edges, accept_edges) of comparisons between Vec::len(self.<field>) and self.capacity."""
    def cmp(o):
        return any(v[0] == "binop" and v[1] in ("Ge", "Gt", "Lt", "Le") for v in o.via) and (
            (o.kind == "param" and o.key == 1 and o.path[-1:] == (".capacity",)) or
            (o.kind == "param" and o.key == 1 and o.path[-1:] == ("." + field,) and any(v[0] == "call" and v[1].endswith("::len") for v in o.via)))

    def ge(o):
        return cmp(o) and any(v[0] == "binop" and v[1] in ("Ge", "Gt") for v in o.via)

    def lt(o):
        return cmp(o) and any(v[0] == "binop" and v[1] in ("Lt", "Le") for v in o.via)
    refuse = bool_cond_edges(fn, prov, ge, True) | bool_cond_edges(fn, prov, lt, False)
    accept = bool_cond_edges(fn, prov, ge, False) | bool_cond_edges(fn, prov, lt, True)
    return refuse, accept


def field_pushes(fn, prov, field, elem):
    return [b for b in fn.calls_re(r"(alloc::vec::Vec::<T, A>::(push|insert|extend\w*|append)|vec_deque::VecDeque::<T, A>::(push_back|push_front|insert|extend\w*|append))$|Extend(<.*>)?>?::extend$", cleanup=False)
            if elem in fn.term(b)["arg_tys"][0] and has_origin(prov.of_operand(fn, fn.term(b)["args"][0]), kind="param", key=1, path_suffix=("." + field,))]


def rule_bounded_writes(ctx, facts, rule):
    prov = Prov(facts)
    n = 0
    for g in facts.fns.values():
        if g.crate != "fastrace" or not g.path.startswith(QUEUE):
            continue
        pushes = field_pushes(g, prov, "span_queue", "RawSpan")
        if not pushes:
            continue
        refuse, accept = capacity_edges(g, prov, "span_queue")
        for b in pushes:
            n += 1
            ctx.check(bool(accept) and g.guarded([b], accept), rule, g.path, g.loc(b),
                      "every push onto SpanQueue.span_queue is guarded by len(span_queue) < capacity",
                      "guard %s" % sorted((a, d) for a, d, _ in accept),
                      "push at bb%d reachable without the capacity test: a scope can grow without bound" % b, extra="queue-push")
        # on the refusing edge the function returns without touching the parent tracking
        assigns = {b for b, blk in enumerate(g.blocks) for s in blk["stmts"]
                   if s["k"] == "assign" and s["lhs"]["l"] == 1 and ".next_parent_id" in s["lhs"]["p"]}
        r = set()
        for a, d, _ in refuse:
            r |= g.reach([(a, d)])
        ctx.check(bool(refuse) and not (r & assigns) and not (r & set(pushes)), rule, g.path, g.span,
                  "on the refusing edge nothing is recorded and next_parent_id is left alone (recorded spans keep their parents)",
                  "", "refusing edge reaches %s" % sorted((r & assigns) | (r & set(pushes))), extra="queue-refuse")
    ctx.floor(rule, QUEUE, n, 3, "pushes onto SpanQueue.span_queue")
    # outside SpanQueue nobody pushes onto a span queue field
    fn = ctx.need_fn(facts, STACK + "register_span_line", rule)
    if fn is not None:
        pushes = field_pushes(fn, prov, "span_lines", "SpanLine")
        refuse, accept = capacity_edges(fn, prov, "span_lines")
        ctx.check(bool(pushes) and bool(accept) and fn.guarded(pushes, accept), rule, fn.path, fn.span,
                  "the push onto LocalSpanStack.span_lines is guarded by len(span_lines) < capacity", "", "unguarded push", extra="stack-push")
        assigns = {b for b, blk in enumerate(fn.blocks) for s in blk["stmts"]
                   if s["k"] == "assign" and s["lhs"]["l"] == 1 and ".next_span_line_epoch" in s["lhs"]["p"]}
        r = set()
        for a, d, _ in refuse:
            r |= fn.reach([(a, d)])
        nones = [b for b, blk in enumerate(fn.blocks) for s in blk["stmts"] if s["k"] == "assign" and s["lhs"]["l"] == 0
                 and s["rv"]["k"] == "agg" and s["rv"].get("variant") == "None"]
        ctx.check(bool(refuse) and not (r & assigns) and not (r & set(pushes)) and bool(set(nones) & r), rule, fn.path, fn.span,
                  "a refused scope returns None and consumes no epoch", "", "refusing edge reaches %s" % sorted(r & (assigns | set(pushes))),
                  extra="stack-refuse")
    # all pushes onto the two bounded fields are the ones above
    others = []
    for g in facts.fns.values():
        if g.crate != "fastrace":
            continue
        for b in g.calls_re(r"(alloc::vec::Vec::<T, A>::(push|insert|extend\w*|append)|vec_deque::VecDeque::<T, A>::(push_back|push_front|insert|extend\w*|append))$", cleanup=False):
            t = g.term(b)
            if (re.search(r"(Vec|VecDeque)<fastrace::local::local_span_line::SpanLine>", t["arg_tys"][0]) and not g.path.endswith("register_span_line")):
                others.append((g.path, g.loc(b)))
            if "Vec<fastrace::local::raw_span::RawSpan>" in t["arg_tys"][0] and not g.path.startswith(QUEUE) \
                    and has_origin(prov.of_operand(g, t["args"][0]), path_suffix=(".span_queue",)):
                others.append((g.path, g.loc(b)))
    ctx.check(not others, rule, "fastrace::local", "-", "no other code grows a scope's span queue or the scope stack", "", "%s" % others, extra="others")


def rule_send_ignores_full(ctx, facts, rule):
    prov = Prov(facts)
    fn = ctx.need_fn(facts, "fastrace::collector::global_collector::send_command", rule)
    if fn is None:
        return
    bodies = [fn] + facts.closures_of(fn)
    sends = [(g, b) for g in bodies for b in g.calls_re(r"spsc::Sender::<T>::send$", cleanup=False)]
    ctx.check(len(sends) == 1, rule, fn.path, fn.span, "send_command uses the droppable Sender::send at one site", "", "%d sites" % len(sends), extra="site")
    for g, b in sends:
        dest = g.term(b)["dest"]["l"]
        users = [g.term(x)["callee"] for x in g.calls() for a in g.term(x)["args"][:1]
                 if a["k"] in ("copy", "move") and root_local(g, a)[0] == dest]
        sw = result_switches(g, b)
        ok = bool(users) and all(re.search(r"Result::<T, E>::(ok|is_ok|is_err|unwrap_or_default|unwrap_or|err)$|mem::drop$", u) for u in users) and not sw
        ctx.check(ok, rule, g.path, g.loc(b), "a full queue is ignored: the Result of Sender::send flows only into ok()",
                  "consumed by %s" % users, "result used by %s (matched: %s)" % (users, bool(sw)), extra="ok")
    bad = []
    for g in facts.fns.values():
        if g.crate != "fastrace":
            continue
        for b in g.calls_re(r"Result::<T, E>::(unwrap|expect)$", cleanup=False):
            if "ChannelFull" in g.term(b)["arg_tys"][0]:
                bad.append((g.path, g.loc(b)))
    ctx.check(not bad, rule, "fastrace", "-", "nobody unwraps a Result<_, ChannelFull>", "", "%s" % bad, extra="unwrap")


def rule_start_droppable(ctx, facts, rule, other):
    for v, want in (("StartCollect", "send_command"), ("SubmitSpans", "send_command")):
        lst = other.get(v, [])
        ok = bool(lst) and all(c == ["fastrace::collector::global_collector::" + want] for _, c in lst)
        ctx.check(ok, rule, "fastrace::collector::command::CollectCommand::" + v, "-",
                  "%s commands use the bounded, droppable path (only finish/cancel signals may be parked without bound)" % v,
                  "%s" % lst, "%s flows into %s" % (v, lst), extra="droppable-" + v)


def rule_capacities(ctx, facts, rule):
    prov = Prov(facts)
    caps = {}
    for g in facts.fns.values():
        if g.crate != "fastrace":
            continue
        for b in g.calls_re(r"util::spsc::bounded$", cleanup=False):
            a = g.term(b)["args"][0]
            caps["ring"] = a.get("v")
    for name in ("DEFAULT_SPAN_QUEUE_SIZE", "DEFAULT_SPAN_STACK_SIZE"):
        c = facts.consts.get("fastrace::local::local_span_stack::" + name)
        caps[name] = c.get("v") if c else None
    ctx.check(all(isinstance(v, int) and v > 0 for v in caps.values()) and len(caps) == 3, rule, "fastrace", "-",
              "the three capacities are positive compile-time constants (values reported, no verdict on their size)",
              "%s" % caps, "%s" % caps, extra="capacities")
    return caps


# ------------------------------------------------------------------------------------------------ C10

def rule_not_send(ctx, facts, rule):
    for p in ("fastrace::span::LocalParentGuard", "fastrace::local::local_span::LocalSpan", "fastrace::local::local_collector::LocalCollector"):
        adt = facts.adts.get(p)
        if adt is None:
            ctx.fail(rule, p, "-", "type exists", "anchor lost", extra="anchor")
            continue
        ctx.check(adt["auto"].get("Send") is False and adt["auto"].get("Sync") is False, rule, p, adt["span"],
                  "%s is neither Send nor Sync: a scope cannot leave the thread whose stack it is on" % p.rsplit("::", 1)[1],
                  "trait solver: %s" % adt["auto"], "trait solver: %s" % adt["auto"], extra="send")
    sp = facts.adts.get("fastrace::span::Span")
    ctx.check(sp is not None and sp["auto"].get("Send") is True, rule, "fastrace::span::Span", "-",
              "control: Span is Send (the solver query is not vacuous)", "", "Span: %s" % (sp or {}).get("auto"), extra="control")


def rule_scope_pairing(ctx, facts, rule):
    prov = Prov(facts)
    pushers, poppers = set(), set()
    for g in facts.fns.values():
        if g.crate != "fastrace":
            continue
        for b in g.calls_re(r"(alloc::vec::Vec|vec_deque::VecDeque)::<T, A>::\w+$", cleanup=False):
            t = g.term(b)
            if not re.search(r"(Vec|VecDeque)<fastrace::local::local_span_line::SpanLine>", t["arg_tys"][0]):
                continue
            op = t["callee"].rsplit("::", 1)[1]
            if op in ("push", "push_back", "push_front", "insert", "extend", "append", "extend_from_slice"):
                pushers.add(g.path)
            if op in ("pop", "pop_back", "pop_front", "remove", "truncate", "clear", "drain", "swap_remove", "swap_remove_back", "swap_remove_front", "split_off", "retain", "retain_mut"):
                poppers.add(g.path)
    ctx.check(pushers == {STACK + "register_span_line"} and poppers == {STACK + "unregister_and_collect"}, rule, STACK.rstrip(":"), "-",
              "scopes are pushed only by register_span_line and popped only by unregister_and_collect", "",
              "pushers %s, poppers %s" % (sorted(pushers), sorted(poppers)), extra="pushpop")
    callers = sorted({g.path for g in facts.fns.values() if g.crate == "fastrace"
                      and g.calls(lambda t: t["callee"] == STACK + "register_span_line")})
    ctx.check(callers == ["fastrace::local::local_collector::LocalCollector::new"], rule, STACK + "register_span_line", "-",
              "a scope is opened only by LocalCollector::new (whose handle is owned by the returned collector)", "", "callers %s" % callers,
              extra="opener")
    LC = "fastrace::local::local_collector::LocalCollector"
    for p in (LC + "::collect_spans_and_token", "<%s as core::ops::drop::Drop>::drop" % LC):
        fn = ctx.need_fn(facts, p, rule)
        if fn is None:
            continue
        unreg = sites_star(facts, fn, lambda g, t: t["callee"] == STACK + "unregister_and_collect")
        takes = [b for b in fn.calls_re(r"Option::<T>::take$", cleanup=False) if "LocalCollectorInner" in fn.term(b)["arg_tys"][0]]
        ok = bool(unreg) and bool(takes) and all(any(fn.dominates(t, u) for t in takes) for u in unreg)
        if p.endswith("::drop"):
            some = set()
            for t in takes:
                for sb in result_switches(fn, t):
                    some |= set(fn.variant_edges(sb, ["Some"]))
            mp = fn.must_pass([(a, d) for a, d, _ in some], unreg)[0] if some else False
            ok = ok and mp
        ctx.check(ok, rule, p, fn.span,
                  "%s takes the scope handle out of the collector (Option::take) and then closes the scope: a collected "
                  "collector's Drop cannot pop a second scope" % p.rsplit("::", 1)[1], "",
                  "take sites %s, unregister sites %s" % (takes, unreg), extra="close")
    fn = ctx.need_fn(facts, "<fastrace::span::LocalParentGuard as core::ops::drop::Drop>::drop", rule)
    if fn is not None:
        col = fn.calls_re(r"LocalCollector::collect_spans_and_token$", cleanup=False)
        takes = [b for b in fn.calls_re(r"Option::<T>::take$", cleanup=False) if "LocalParentGuardInner" in fn.term(b)["arg_tys"][0]]
        some = set()
        for tk in takes:
            for sb in result_switches(fn, tk):       # the first test of the taken value, not drop elaboration's re-tests
                some |= set(fn.variant_edges(sb, ["Some"]))
        if not takes:
            some = discr_cond_edges(fn, prov, r"Option<fastrace::span::LocalParentGuardInner>", ["Some"])
        ok = bool(col) and bool(some) and fn.must_pass([(a, d) for a, d, _ in some], col)[0]
        ctx.check(ok, rule, fn.path, fn.span, "dropping a local-parent guard closes its scope on every path from inner = Some", "",
                  "collect sites %s" % col, extra="guard")
    fn = ctx.need_fn(facts, "<fastrace::local::local_span::LocalSpan as core::ops::drop::Drop>::drop", rule)
    if fn is not None:
        ex = sites_star(facts, fn, lambda g, t: t["callee"] == STACK + "exit_span")
        takes = [b for b in fn.calls_re(r"Option::<T>::take$", cleanup=False)]
        some = set()
        for t in takes:
            for sb in result_switches(fn, t):
                some |= set(fn.variant_edges(sb, ["Some"]))
        ok = bool(ex) and bool(some) and fn.must_pass([(a, d) for a, d, _ in some], ex)[0]
        ctx.check(ok, rule, fn.path, fn.span, "dropping a LocalSpan exits the span on every path from inner = Some", "", "exit sites %s" % ex, extra="local-span")


def rule_epochs(ctx, facts, rule):
    prov = Prov(facts)
    for name, callee in (("finish_span", QUEUE + "finish_span"), ("with_properties", QUEUE + "with_properties"), ("collect", None)):
        fn = ctx.need_fn(facts, LINE + name, rule)
        if fn is None:
            continue

        e = equal_edges(fn, prov, lambda o: (bool(o.path) and o.path[-1] in (".epoch", ".span_line_epoch")) or
                        (o.kind == "param" and o.key == 2 and o.path == ()))
        if callee:
            sites = [b for b in fn.calls(lambda t: t["callee"] == callee) if not fn.blocks[b]["cleanup"]]
        else:
            sites = sites_star(facts, fn, lambda g, t: t["callee"].endswith("SpanQueue::take_queue"))
            if sites and all(re.search(r"bool>?::then$", fn.term(b)["callee"]) for b in sites):
                # `(eq).then(closure)`: the closure runs only when the comparison holds
                th = fn.calls_re(r"bool>?::then$", cleanup=False)
                ok = bool(th) and all(any(v[0] == "binop" and v[1] == "Eq" for o in prov.of_operand(fn, fn.term(b)["args"][0]) for v in o.via) for b in th)
                ctx.check(ok, rule, fn.path, fn.span, "SpanLine::collect hands out the scope's spans only to the handle with its epoch", "bool::then on the comparison",
                          "no epoch comparison guards the collection", extra="epoch")
                continue
        ctx.check(bool(sites) and bool(e) and fn.guarded(sites, e), rule, fn.path, fn.span,
                  "SpanLine::%s acts only for a handle of its own epoch (stale handles are ignored)" % name, "", "sites %s unguarded" % sites, extra="epoch")
        if name == "finish_span" and sites:
            # ... and for every such handle: a well-nested close is never ignored (nothing but a foreign epoch -- or a scope that never
            # records -- keeps the close from reaching the queue; a close skipped because the queue happens to be full leaves the closed
            # span as the scope's innermost parent)
            from .core import inline_calls, bool_cond_edges
            view = inline_calls(facts, fn, lambda g: g.path.startswith(LINE) or re.search(r"span_queue::SpanQueue::(is_|len|capacity)", g.path), depth=2)
            pv = Prov(facts)
            ne = equal_edges(view, pv, lambda o: (bool(o.path) and o.path[-1] in (".epoch", ".span_line_epoch")) or
                             (o.kind == "param" and o.key == 2 and o.path == ()), equal=False)
            ns = bool_cond_edges(view, pv, lambda o: o.path[-1:] == (".is_sampled",) and not any(v[0] in ("binop", "call") for v in o.via), False)
            vs = [b for b in view.calls(lambda t: t["callee"] == callee) if not view.blocks[b]["cleanup"]]
            # a helper's answer merged into one bool (`_0 = false` on one path, `_0 = a == b` on another): crossing its false edge is an
            # accepted reason only if every constant that can reach it was assigned behind an accepted edge
            cand = set(ne) | set(ns)

            def const_defs(b):
                d = view.blocks[b]["term"]["discr"]
                out, seen, todo = [], set(), [d["l"]] if d["k"] in ("copy", "move") and not d["p"] else []
                while todo:
                    l = todo.pop()
                    if l in seen:
                        continue
                    seen.add(l)
                    for (bi, i, st) in view.defs(l):
                        if i == "term" or st["k"] != "assign":
                            continue
                        rv = st["rv"]
                        if rv["k"] == "use" and rv["op"]["k"] == "const":
                            out.append(bi)
                        elif rv["k"] == "use" and rv["op"]["k"] in ("copy", "move") and not rv["op"]["p"]:
                            todo.append(rv["op"]["l"])
                        elif rv["k"] == "unop" and isinstance(rv.get("a"), dict) and rv["a"]["k"] in ("copy", "move") and not rv["a"]["p"]:
                            todo.append(rv["a"]["l"])
                return out
            plain = {e for e in cand if not const_defs(e[0])}
            acc = set(plain)
            for e in cand - plain:
                if all(view.guarded([cb], plain) for cb in const_defs(e[0])):
                    acc.add(e)
            okc, wit = view.must_pass([0], vs, avoid_edges=acc) if vs else (False, None)
            ctx.check(okc, rule, fn.path, fn.span, "SpanLine::finish_span closes the span for every handle of its own epoch (no other condition)", "",
                      "a path with a matching epoch returns (bb%s) without SpanQueue::finish_span" % wit, extra="epoch-always")


def rule_inert_without_scope(ctx, facts, rule):
    prov = Prov(facts)
    n = 0
    for name in ("enter_span", "exit_span", "add_event", "add_properties", "with_properties", "current_collect_token"):
        fn = ctx.need_fn(facts, STACK + name, rule)
        if fn is None:
            continue
        n += 1
        some = discr_cond_edges(fn, prov, r"Option<&mut fastrace::local::local_span_line::SpanLine>", ["Some"])
        # `?` on current_span_line(): Continue edge of the branch result
        for b in fn.calls_re(r"ops::try_trait::Try>?::branch$", cleanup=False):
            if "SpanLine" in fn.term(b)["arg_tys"][0]:
                for sb in result_switches(fn, b):
                    some |= set(fn.variant_edges(sb, ["Continue"]))
        eff = [b for b in fn.calls(lambda t: t["callee"].startswith(LINE)) if not fn.blocks[b]["cleanup"]]
        # the combinator form: current_span_line().and_then(|line| line.start_span(..)) runs the effect only for Some
        via_closure = [(c, hb) for c, hb in some_guarded_closures(facts, fn, prov, r"Option<&mut fastrace::local::local_span_line::SpanLine>")
                       if c.calls(lambda t: t["callee"].startswith(LINE))]
        inside = {c.path for c, _ in via_closure}
        spliced = getattr(fn, "inlined_paths", set())          # closures whose body is part of this view already (called by an inlined helper)
        stray = [c.path for c in facts.closures_of(fn) if c.path not in inside and c.path not in spliced and c.calls(lambda t: t["callee"].startswith(LINE))]
        if via_closure and not eff and not stray:
            ctx.ok(rule, fn.path, fn.span, "LocalSpanStack::%s is inert unless a scope is open (span_lines.last_mut() = Some)" % name,
                   "effects run inside a closure handed to an Option combinator on current_span_line()", extra="inert")
            continue
        ctx.check(bool(eff) and bool(some) and fn.guarded(eff, some) and not stray, rule, fn.path, fn.span,
                  "LocalSpanStack::%s is inert unless a scope is open (span_lines.last_mut() = Some)" % name,
                  "effects %s" % [fn.term(b)["callee"].rsplit("::", 1)[1] for b in eff], "effectful calls %s unguarded" % eff, extra="inert")
    ctx.floor(rule, STACK.rstrip(":"), n, 6, "scope-stack operations")


def rule_scope_always_opened(ctx, facts, rule):
    """Setting a recording span as local parent always opens a scope of its own -- also for an unsampled span, whose
    (non-recording) scope shields the enclosing one from local properties / events / spans."""
    prov = Prov(facts)
    at = ctx.need_fn(facts, "fastrace::span::Span::attach_into_stack", rule)
    if at is not None:
        # the private helper that builds the guard (SpanInner::capture_local_spans on the confirmed tree) is looked through,
        # whether it exists, was inlined by hand, or is called from a closure handed to Option::map
        def helper(g):
            return g.path.endswith("span::SpanInner::capture_local_spans")
        bodies = [inline_calls(facts, at, helper, depth=2)] + [inline_calls(facts, c, helper, depth=2) for c in facts.closures_of(at)]
        found, ok, tok, wit = 0, True, False, None
        for g in bodies:
            news = [b for b in g.calls(lambda t: t["callee"].endswith("LocalCollector::new")) if not g.blocks[b]["cleanup"]]
            if not news:
                continue
            found += 1
            if g.kind == "Closure":
                starts = [0]      # the closure runs exactly when the span is recording (Option::map on self.inner)
            else:
                some = discr_cond_edges(g, prov, r"Option<(&)?fastrace::span::SpanInner>", ["Some"])
                starts = [(a, d) for a, d, _ in some]
                ok = ok and bool(some)
            m, w = g.must_pass(starts, news)
            ok = ok and m
            wit = wit if m else w
            for b in news:
                src = prov.of_operand(g, g.term(b)["args"][0])
                tok = tok or any(v[0] == "call" and v[1].endswith("SpanInner::issue_collect_token") for o in src for v in o.via)
        ctx.check(found > 0 and ok and tok, rule, at.path, at.span,
                  "setting a recording span as local parent opens a scope (LocalCollector::new with the span's issued token) on every path",
                  "%d body(ies) open the scope" % found,
                  "a path returns at bb%s without opening a scope (or no scope is opened from the span's own token): local operations inside "
                  "the guard would act on the enclosing scope" % wit, extra="opened")
    new = ctx.need_fn(facts, "fastrace::local::local_collector::LocalCollector::new", rule)
    if new is not None:
        reg = sites_star(facts, new, lambda g, t: t["callee"].endswith("LocalSpanStack::register_span_line"))
        ok, wit = new.must_pass([0], reg)
        ctx.check(ok and bool(reg), rule, new.path, new.span, "LocalCollector::new registers a span line on every path", "", "path avoiding register_span_line (bb%s)" % wit, extra="register")


def rule_epoch_representation(ctx, facts, rule):
    """The scope identity kept in handles is the scope's epoch, unnarrowed: all four epoch fields have one type and the
    handles are built from the epoch without a cast (a truncated epoch makes finish_span skip after enough scopes)."""
    prov = Prov(facts)
    want = [("fastrace::local::local_span_line::SpanLine", "epoch"), ("fastrace::local::local_span_line::LocalSpanHandle", "span_line_epoch"),
            ("fastrace::local::local_span_stack::SpanLineHandle", "span_line_epoch"), ("fastrace::local::local_span_stack::LocalSpanStack", "next_span_line_epoch")]
    tys = {}
    for a, f in want:
        adt = facts.adts.get(a)
        t = [x["ty"] for x in adt["variants"][0]["fields"] if x["name"] == f] if adt else []
        tys[a.rsplit("::", 1)[1] + "." + f] = t[0] if t else None
    ctx.check(len(set(tys.values())) == 1 and None not in tys.values(), rule, "fastrace::local", "-",
              "the scope epoch has one integer type everywhere it is stored", "%s" % tys, "epoch field types differ: %s" % tys, extra="epoch-types")
    from .core import constructions
    n = 0
    for a in ("fastrace::local::local_span_line::LocalSpanHandle", "fastrace::local::local_span_stack::SpanLineHandle"):
        for fn, b, s, f in constructions(facts, a, crates=["fastrace"]):
            if "span_line_epoch" not in f:
                continue
            n += 1
            src = prov.resolve_upvars(fn, prov.of_operand(fn, f["span_line_epoch"]))
            casts = [v for o in src for v in o.via if v[0] == "cast"]
            from_epoch = any(o.path and o.path[-1] in (".epoch", ".next_span_line_epoch") for o in src)
            ctx.check(from_epoch and not casts, rule, fn.path, fn.loc(b), "%s.span_line_epoch is the scope's epoch, copied without a cast" % a.rsplit("::", 1)[1],
                      "", "origins %s casts %s" % (origin_strs(src), casts), extra="epoch-copy")
    ctx.floor(rule, "fastrace::local", n, 2, "handle constructions")


HANDLE_OWNERS = {
    # handle type -> the only functions that may move it out of its guard (each closes the scope afterwards: R2 'close' rules)
    "fastrace::local::local_span::LocalSpanInner": {"<fastrace::local::local_span::LocalSpan as core::ops::drop::Drop>::drop"},
    "fastrace::local::local_collector::LocalCollectorInner": {
        "<fastrace::local::local_collector::LocalCollector as core::ops::drop::Drop>::drop",
        "fastrace::local::local_collector::LocalCollector::collect_spans_and_token"},
    "fastrace::span::LocalParentGuardInner": {"<fastrace::span::LocalParentGuard as core::ops::drop::Drop>::drop"},
}


def rule_handle_stays_in_guard(ctx, facts, rule):
    """The value that closes a scope (exit_span / unregister) lives inside the guard whose Drop closes it. Moving it out
    (Option::take, mem::take/replace/swap) anywhere but in that Drop (or the consuming collect) means an unwind -- e.g. a
    panicking property closure -- drops a guard that is already empty, and the scope stays open."""
    seen = {k: 0 for k in HANDLE_OWNERS}
    for g in facts.fns.values():
        if g.crate != "fastrace":
            continue
        for b in g.calls_re(r"Option::<T>::(take|replace|take_if)$|core::mem::(take|replace|swap)$", cleanup=True):
            t = g.term(b)
            for ty, allowed in HANDLE_OWNERS.items():
                if ("Option<%s>" % ty) not in t["arg_tys"][0]:
                    continue
                seen[ty] += 1
                host = re.sub(r"(::\{closure#\d+\})+$", "", g.path)
                ctx.check(host in allowed, rule, g.path, g.loc(b),
                          "the scope handle (%s) leaves its guard only in the guard's Drop / consuming collect" % ty.rsplit("::", 1)[1],
                          "moved out in %s" % host,
                          "%s moves the handle out of the guard: if anything between this point and putting it back unwinds "
                          "(a caller-supplied closure that panics), the guard that is dropped is empty and the scope / span is "
                          "never closed" % g.path, extra=ty.rsplit("::", 1)[1])
    for ty, n in seen.items():
        ctx.floor(rule, ty, n, len(HANDLE_OWNERS[ty]), "sites that move %s out of its guard" % ty.rsplit("::", 1)[1])


def rule_refused_scope_masks(ctx, facts, rule):
    """A scope the stack refuses (limit reached) must still mask the enclosing scope: otherwise local spans, events and
    properties recorded "under" the refused local parent act on the enclosing scope and are delivered with another
    parent, possibly in another trace. Necessary: the refusing path of register_span_line leaves a trace in the stack's
    state (a store to a field of self, or a &mut self call) that the local operations can test; a refusal that changes
    nothing is invisible to them."""
    fn = ctx.need_fn(facts, STACK + "register_span_line", rule)
    if fn is None:
        return
    pushes = [b for b in fn.calls_re(r"alloc::vec::Vec::<T, A>::push$|vec_deque::VecDeque::<T, A>::push_back$", cleanup=False)
              if "SpanLine>" in fn.term(b)["arg_tys"][0]]
    if not pushes:
        ctx.fail(rule, fn.path, fn.span, "register_span_line pushes a span line", "anchor lost: no push", extra="anchor")
        return
    refusing = fn.reach([0], avoid_blocks=set(pushes))
    rets = [b for b in refusing if fn.blocks[b]["term"]["k"] == "return"]
    if not rets:
        ctx.ok(rule, fn.path, fn.span, "register_span_line never refuses a scope", "every return passes the push", extra="refusal-invisible")
        return
    # blocks that lie only on refusing paths: reachable while avoiding the push, and from which the push is unreachable
    only_refuse = {b for b in refusing if not (fn.reach([b]) & set(pushes))}
    writes = []
    for b in sorted(only_refuse):
        for st in fn.blocks[b]["stmts"]:
            if st["k"] == "assign" and st["lhs"]["l"] == 1 and st["lhs"]["p"] and st["lhs"]["p"][0] == "*":
                writes.append(fn.loc(b))
        t = fn.blocks[b]["term"]
        if t["k"] == "call" and any(ty.startswith("&mut ") and "local_span" in ty for ty in t.get("arg_tys", [])):
            writes.append(fn.loc(b))
    ctx.check(bool(writes), rule, fn.path, fn.span,
              "a refused scope (limit reached) is recorded in the stack's state, so that local operations under it cannot act on "
              "the enclosing scope",
              "refusing path writes self at %s" % writes,
              "the refusing path (span_lines.len() >= capacity -> None) changes nothing: after the 4096th nested scope a further "
              "`other.set_local_parent()` is invisible, current_local_parent() still answers with the enclosing scope's parent and a "
              "LocalSpan entered under `other` is delivered under the enclosing parent, in its trace", extra="refusal-invisible")


def rule_refuses_only_when_full(ctx, facts, rule):
    """Setting a local parent opens a scope unless the scope stack is full: in register_span_line every path that does
    not cross the `len(span_lines) >= capacity` edge reaches the push of the new span line. (A second reason to refuse --
    "this parent is already on top" -- leaves the open local span of the enclosing line as the current local parent.)"""
    fn = ctx.need_fn(facts, STACK + "register_span_line", rule)
    if fn is None:
        return
    prov = Prov(facts)
    pushes = field_pushes(fn, prov, "span_lines", "SpanLine")
    refuse, accept = capacity_edges(fn, prov, "span_lines")
    if not pushes or not refuse:
        ctx.fail(rule, fn.path, fn.span, "register_span_line tests the capacity and pushes a span line",
                 "anchor lost: pushes %s, capacity edges %s" % (pushes, sorted((a, d) for a, d, _ in refuse)), extra="only-when-full")
        return
    ok, wit = fn.must_pass([0], pushes, avoid_edges=refuse)
    ctx.check(ok, rule, fn.path, fn.span,
              "a scope is refused only when the scope stack is full: every other path pushes the new span line",
              "push sites %s, refusing edges %s" % (pushes, sorted((a, d) for a, d, _ in refuse)),
              "a path returns at bb%s without pushing a span line although the stack is not full: the guard handed out is a no-op and "
              "the thread's local context stays what it was (an open local span of the enclosing scope remains the current local parent)" % wit,
              extra="only-when-full")


def rule_unregister_always_pops(ctx, facts, rule):
    """Releasing a scope removes a scope: every returning path of unregister_and_collect passes Vec::pop on span_lines
    (a release that keeps the line -- e.g. because the epochs differ -- leaves a ghost local parent behind for the rest of
    the thread's life: closures run, spans record and contexts exist with no local parent set)."""
    fn = ctx.need_fn(facts, STACK + "unregister_and_collect", rule)
    if fn is None:
        return
    pops = [b for b in fn.calls_re(r"alloc::vec::Vec::<T, A>::pop$|vec_deque::VecDeque::<T, A>::pop_back$", cleanup=False) if "SpanLine>" in fn.term(b)["arg_tys"][0]]
    ok, wit = fn.must_pass([0], pops) if pops else (False, None)
    ctx.check(ok, rule, fn.path, fn.span, "releasing a scope pops the scope stack on every returning path", "pop sites %s" % pops,
              "a path returns at bb%s without popping span_lines: the released scope stays on the stack as the thread's local parent" % wit,
              extra="always-pops")



INNERMOST_OK = re.compile(r"::(last|last_mut|back|back_mut|push|push_back|pop|pop_back|len|is_empty|capacity|with_capacity|new|deref|deref_mut|as_mut_slice|as_slice)$")


def rule_span_lines_innermost_only(ctx, facts, rule):
    """"The innermost local parent": the scope stack is only ever looked at from its top. Every access to
    LocalSpanStack.span_lines is last / last_mut / push / pop / len / is_empty (or their VecDeque names); iterating, indexing
    or taking the first line answers with an enclosing scope instead of the current one."""
    prov = Prov(facts)
    bad, n = [], 0
    for g in facts.fns.values():
        if g.crate != "fastrace" or re.search(r"::tests?::|::test_", g.path):
            continue
        for b in g.calls():
            t = g.term(b)
            if g.blocks[b]["cleanup"] or not t["args"] or not t.get("arg_tys") or not re.fullmatch(
                    r"&(mut )?((alloc::vec::Vec|alloc::collections::vec_deque::VecDeque)<fastrace::local::local_span_line::SpanLine>|"
                    r"\[fastrace::local::local_span_line::SpanLine\])", t["arg_tys"][0]):
                continue                      # only operations on the container itself (not on the Option<&mut SpanLine> taken from it)
            src = prov.of_operand(g, t["args"][0])
            if not any(".span_lines" in o.path for o in src):
                continue
            n += 1
            if not INNERMOST_OK.search(t["callee"]):
                bad.append((g.path, g.loc(b), t["callee"].rsplit("::", 1)[1]))
    ctx.check(not bad and n >= 3, rule, STACK.rstrip(":"), "-",
              "the scope stack is only accessed from its top (last / last_mut / push / pop / len / is_empty)", "%d accesses" % n,
              "span_lines accessed with %s: an enclosing scope can be taken for the current one" % bad, extra="innermost-only")


def rule_scope_state_restored(ctx, facts, rule):
    """The scope stack carries no state that opening a scope changes and closing it does not put back: every field of
    LocalSpanStack that register_span_line assigns -- other than the epoch counter, which only ever advances -- is assigned
    again in unregister_and_collect. (A cached "the top scope records" flag set on push and not recomputed on pop leaves the
    enclosing scope with the inner scope's answer.)"""
    reg = ctx.need_fn(facts, STACK + "register_span_line", rule)
    unreg = ctx.need_fn(facts, STACK + "unregister_and_collect", rule)
    if reg is None or unreg is None:
        return

    def written(fn):
        out = set()
        for blk in fn.blocks:
            if blk["cleanup"]:
                continue
            for st in blk["stmts"]:
                if st["k"] == "assign" and st["lhs"]["l"] == 1 and st["lhs"]["p"][:1] == ["*"]:
                    fl = [q for q in st["lhs"]["p"] if q != "*"]
                    if fl:
                        out.add(fl[0])
        return out
    w_reg = {f for f in written(reg) if "epoch" not in f}
    w_un = written(unreg)
    missing = sorted(w_reg - w_un)
    ctx.check(not missing, rule, reg.path, reg.span,
              "whatever register_span_line stores in the stack besides the new line (and the epoch counter) is stored again when the scope is released",
              "fields written on open: %s; on release: %s" % (sorted(w_reg), sorted(w_un)),
              "fields %s are written when a scope is opened and not when it is released: after an inner scope ends the enclosing scope "
              "keeps the inner scope's value" % missing, extra="state-restored")


LOCAL_ENTRY = [
    "fastrace::local::local_span::LocalSpan::enter_with_local_parent", "fastrace::local::local_span::LocalSpan::add_event",
    "fastrace::local::local_span::LocalSpan::add_properties", "fastrace::local::local_span::LocalSpan::add_property",
    "fastrace::span::Span::enter_with_local_parent", "fastrace::span::Span::set_local_parent",
    "fastrace::collector::id::SpanContext::current_local_parent", "fastrace::local::local_collector::LocalCollector::start",
]


def rule_local_context_is_the_stack(ctx, facts, rule):
    """The thread's local context is LOCAL_SPAN_STACK and nothing else: the local operations reach no thread-local / static of
    the fastrace crate that the confirmed tree does not have. (A second piece of per-thread state -- a counter of open scopes
    consulted on a fast path -- has to be kept in step with the stack on every path that opens or releases a scope; the stack
    itself needs no such care.)"""
    import json, os
    kp = os.path.join(os.path.dirname(os.path.abspath(__file__)), "known_fns.json")
    with open(kp) as fh:
        allk = json.load(fh)
    known = set(((allk.get("__statics__") or {}).get("fastrace") or {}))
    known_tls_types = set(((allk.get("__tls__") or {}).get("fastrace") or {}).values())
    new_tls = {}
    for k, c in facts.consts.items():
        m = re.match(r"std::thread::local::LocalKey<(.*)>$", c.get("ty", "")) if k.startswith("fastrace::") else None
        if m and m.group(1) not in known_tls_types and k not in ((allk.get("__tls__") or {}).get("fastrace") or {}):
            new_tls[m.group(1)] = k
    roots = [p for p in LOCAL_ENTRY if p in facts.fns]
    ctx.floor(rule, "fastrace::local", len(roots), 6, "local entry points")
    # state that belongs to the local context is state that opening / releasing a scope touches (the id generator, say, is
    # per-thread state too, but no scope operation goes near it)
    openers = [p for p in ("fastrace::span::Span::set_local_parent", "fastrace::local::local_collector::LocalCollector::start",
                           "fastrace::local::local_collector::LocalCollector::new",
                           "<fastrace::local::local_collector::LocalCollector as core::ops::drop::Drop>::drop",
                           "<fastrace::span::LocalParentGuard as core::ops::drop::Drop>::drop",
                           "fastrace::local::local_collector::LocalCollector::collect",
                           STACK + "register_span_line", STACK + "unregister_and_collect") if p in facts.fns]
    par = facts.reachable(openers)
    bad = []
    for p in sorted(par):
        g = facts.fns.get(p)
        if g is None or g.crate != "fastrace":
            continue
        for blk in g.blocks:
            for st in blk["stmts"]:
                if st["k"] != "assign":
                    continue
                rv = st["rv"]
                names = [rv.get("static")] if rv["k"] == "tls" else []
                for o in ([rv.get("op")] if isinstance(rv.get("op"), dict) else []) + list(rv.get("ops", [])):
                    if isinstance(o, dict) and o.get("static"):
                        names.append(o["static"])
                for o in ([rv.get("op")] if isinstance(rv.get("op"), dict) else []) + list(rv.get("ops", [])):
                    m = re.match(r"&std::thread::local::LocalKey<(.*)>$", str(o.get("ty", ""))) if isinstance(o, dict) and o.get("k") == "const" else None
                    if m and m.group(1) in new_tls:
                        bad.append((g.path, st.get("span", ""), new_tls[m.group(1)]))
                for nme in names:
                    if nme and nme.startswith("fastrace::") and nme not in known and not re.search(r"::promoted\[|__init|::VAL$|::\{\{?constant|::__KEY|::STATE$", nme):
                        bad.append((g.path, st.get("span", ""), nme))
    ctx.check(not bad, rule, "fastrace::local", "-",
              "the local operations consult no per-thread / global state besides the scope stack (and the statics of the confirmed tree)",
              "%d bodies reachable from %d entry points" % (len([p for p in par if p in facts.fns]), len(roots)),
              "new state reached from the local operations: %s" % sorted(set(bad))[:4], extra="only-the-stack")
