"""Obligation bookkeeping, evidence, known findings, exit policy."""
import json
import os
import sys
import time

from . import build
from .core import Facts

VERIF = build.VERIF
EVIDENCE = os.path.join(VERIF, "evidence")
KNOWN = os.path.join(VERIF, "known_findings.json")

TRUSTED = [
    "rustc front end, type checker and MIR construction/drop elaboration (nightly 1.97)",
    "the mirfacts printer (/verif/driver) prints MIR faithfully",
    "transparent-callee and idiom tables in /verif/rules (listed in DESIGN.md)",
    "documented behaviour of std, rtrb, parking_lot, thrift_codec, rmp-serde, opentelemetry",
]


class Ctx:
    def __init__(self, prop, tier="quick", repo=None):
        self.prop = prop
        self.tier = tier
        self.repo = repo
        self.sensitivity = None
        self.obs = []
        self._facts = {}
        self.analysed = {}
        self.t0 = time.time()
        self.explanation = ""
        self.not_decided = ""
        self.build_error = None

    # ---- facts
    def facts(self, cfg):
        if cfg not in self._facts:
            force = bool(os.environ.get("VERIF_NO_CACHE")) or (self.tier == "thorough" and self.repo is None
                                                               and not os.environ.get("VERIF_ALLOW_CACHE"))
            d, info = build.build(cfg, force=force, repo=self.repo)
            f = Facts(d, info)
            self._facts[cfg] = f
            self.analysed[cfg] = {
                "crates": sorted(f.crates), "bodies": f.n_bodies(), "call_sites": f.n_calls(),
                "tree_hash": info["tree_hash"], "cache_hit": info["cache_hit"], "build_s": info["build_s"],
                "cfg": {c: m["cfg"] for c, m in f.meta.items()},
            }
        return self._facts[cfg]

    # ---- obligations
    def _add(self, rule, anchor, site, text, status, detail, extra, nontrivial):
        rid = "%s-%s" % (self.prop, rule)
        key = "%s@%s" % (rid, anchor) + ("#%s" % extra if extra else "")
        self.obs.append({
            "id": rid, "key": key, "property": self.prop, "anchor": anchor, "site": site,
            "rule": text, "status": status, "detail": detail, "nontrivial": bool(nontrivial),
        })

    def ok(self, rule, anchor, site, text, detail="", extra=None, nontrivial=True):
        self._add(rule, anchor, site, text, "discharged", detail, extra, nontrivial)

    def fail(self, rule, anchor, site, text, detail="", extra=None):
        self._add(rule, anchor, site, text, "violated", detail, extra, True)

    def check(self, cond, rule, anchor, site, text, detail_ok="", detail_fail="", extra=None):
        if cond:
            self.ok(rule, anchor, site, text, detail_ok, extra)
        else:
            self.fail(rule, anchor, site, text, detail_fail, extra)
        return bool(cond)

    def rekeyed(self, func, rename):
        """Run func(sub_ctx) and adopt its obligations under other rule ids: rename = {"R1": "R7a", ..} (rules another
        property's module numbers for itself, reused here as necessary conditions of this property)."""
        sub = self.__class__(self.prop, self.tier, repo=self.repo)
        sub._facts = self._facts
        sub.analysed = self.analysed
        func(sub)
        for o in sub.obs:
            r = o["id"].rsplit("-", 1)[1]
            if r in rename:
                o["id"] = "%s-%s" % (self.prop, rename[r])
                o["key"] = o["key"].replace("-%s@" % r, "-%s@" % rename[r], 1)
            self.obs.append(o)

    def need_fn(self, facts, path, rule, text="anchor function exists"):
        fn = facts.fn(path)
        if fn is None:
            self.fail(rule, path, "-", text, "anchor lost: no body named %s in the analysed crates "
                      "(renamed or removed? the rule is keyed on this item)" % path, extra="anchor")
        return fn

    def floor(self, rule, anchor, found, expected, what):
        if found < expected:
            self.fail(rule, anchor, "-", "at least %d %s" % (expected, what),
                      "anchor lost: found %d, confirmed by hand on the pinned tree: %d" % (found, expected),
                      extra="floor")
            return False
        return True


def load_known():
    if not os.path.exists(KNOWN):
        return []
    with open(KNOWN) as fh:
        return json.load(fh).get("findings", [])


def finish(ctx, level="other"):
    known = {k["key"]: k for k in load_known() if k.get("status") == "known" and k.get("property") == ctx.prop}
    viol = [o for o in ctx.obs if o["status"] == "violated"]
    new = []
    for o in viol:
        if o["key"] in known:
            o["status"] = "known"
            print("KNOWN-FINDING: property=%s %s %s" % (ctx.prop, o["key"], known[o["key"]].get("what", o["detail"])))
        else:
            new.append(o)
    discharged = [o for o in ctx.obs if o["status"] == "discharged"]
    nontriv = {o["key"] for o in ctx.obs if o["nontrivial"]}
    os.makedirs(EVIDENCE, exist_ok=True)
    vdir = os.path.join(EVIDENCE, "violations")
    replay = os.path.join(vdir, "%s.json" % ctx.prop)
    samples = [dict((k, o[k]) for k in ("key", "site", "rule", "status", "detail")) for o in ctx.obs]
    ev = {
        "property_id": ctx.prop,
        "tier": ctx.tier,
        "seed": int(os.environ.get("VERIF_SEED", "0") or 0),
        "level": level,
        "coverage": {
            "explanation": ctx.explanation + (" NOT DECIDED: " + ctx.not_decided if ctx.not_decided else ""),
            "obligations": len(ctx.obs),
            "discharged": len(discharged),
            "known_findings": len(viol) - len(new),
            "evaluations": len(ctx.obs),
            "distinct_nontrivial": len(nontriv),
            "rule": "one obligation per rule instance (rule id @ resolved item [# site role]); an instance is "
                    "non-trivial when its anchor was found in the analysed program and the rule inspected at "
                    "least one CFG edge, call site or value origin; distinct = distinct keys",
            "samples": samples,
            "checker_cmd": "./verif check %s --tier %s" % (ctx.prop, ctx.tier),
            "trusted_base": TRUSTED,
            "analysed": ctx.analysed,
            "sensitivity_self_test": ctx.sensitivity,
            "exhaustive": False,
        },
        "assumptions": TRUSTED,
        "wall_s": round(time.time() - ctx.t0, 2),
        "violations": len(new),
    }
    with open(os.path.join(EVIDENCE, "%s.json" % ctx.prop), "w") as fh:
        json.dump(ev, fh, indent=1)
    for cfg, a in ctx.analysed.items():
        print("analysed config %s: %d bodies, %d call sites, crates=%s%s" % (
            cfg, a["bodies"], a["call_sites"], ",".join(a["crates"]), " (cached facts)" if a["cache_hit"] else ""))
    print("%s: %d obligations, %d discharged, %d known, %d violated" % (
        ctx.prop, len(ctx.obs), len(discharged), len(viol) - len(new), len(new)))
    if new:
        os.makedirs(vdir, exist_ok=True)
        with open(replay, "w") as fh:
            json.dump({"property": ctx.prop, "violations": new, "analysed": ctx.analysed}, fh, indent=1)
        for o in new:
            print("%s violated %s %s: %s -- %s" % (o["id"], o["site"], o["anchor"], o["rule"], o["detail"]))
        print("VIOLATION property=%s replay=%s" % (ctx.prop, replay))
        return 1
    if os.path.exists(replay):
        os.remove(replay)
    return 0


def show(path):
    with open(path) as fh:
        d = json.load(fh)
    print("property %s: %d violation(s)" % (d["property"], len(d["violations"])))
    for o in d["violations"]:
        print("- %s" % o["key"])
        print("    site:   %s" % o["site"])
        print("    rule:   %s" % o["rule"])
        print("    detail: %s" % o["detail"])
    return 0


def sensitivity(ctx, check_fn):
    """Thorough tier: run this property's rules over scratch copies of the repository with one catalogue / seeded
    change applied each, and record which are reported. Nothing here affects the verdict on the real tree."""
    import shutil
    import subprocess
    import tempfile
    sys.path.insert(0, os.path.join(VERIF, "tools"))
    import mutants as M
    cat = [m for m in M.load() if ctx.prop in (m.get("expect") or []) and m.get("kind") != "neutral"]
    res = {"caught": [], "missed": [], "skipped": []}
    if not cat:
        ctx.sensitivity = res
        return
    # a fixed path per property: cargo's artefacts for the scratch crates are overwritten, not accumulated
    scratch = os.path.join(tempfile.gettempdir(), "verif-scratch-%s" % ctx.prop)
    shutil.rmtree(scratch, ignore_errors=True)
    os.makedirs(scratch)
    try:
        subprocess.run(["rsync", "-a", "--delete", "--exclude", "target", "--exclude", ".git", build.REPO + "/", scratch + "/"], check=True)
        subprocess.run("git init -q && git add -A && git -c user.email=v@v -c user.name=v commit -qm base", shell=True, cwd=scratch, check=True)
        for m in cat:
            err = M.apply(m, scratch)
            if err:
                res["skipped"].append({"id": m["id"], "why": err})
                M.restore(scratch)
                continue
            sub = Ctx(ctx.prop, "quick", repo=scratch)
            try:
                check_fn(sub)
                v = [o for o in sub.obs if o["status"] == "violated"]
                (res["caught"] if v else res["missed"]).append({"id": m["id"], "reported": [o["key"] for o in v][:3]})
            except build.BuildError as e:
                res["skipped"].append({"id": m["id"], "why": "does not build: %s" % e})
            M.restore(scratch)
        # the other direction: a seeded sample of behaviour-preserving edits must leave this property's rules silent
        import random
        neutral = [m for m in M.load() if m.get("kind") == "neutral"]
        rnd = random.Random(int(os.environ.get("VERIF_SEED", "0") or 0) * 1000 + int(ctx.prop[1:]))
        sample = rnd.sample(neutral, min(6, len(neutral)))
        res["neutral_silent"], res["neutral_alarm"] = [], []
        for m in sample:
            err = M.apply(m, scratch)
            if err:
                M.restore(scratch)
                continue
            sub = Ctx(ctx.prop, "quick", repo=scratch)
            try:
                check_fn(sub)
                known = {k["key"] for k in load_known() if k.get("status") == "known"}
                v = [o for o in sub.obs if o["status"] == "violated" and o["key"] not in known]
                (res["neutral_alarm"] if v else res["neutral_silent"]).append({"id": m["id"], "reported": [o["key"] for o in v][:3]})
            except build.BuildError as e:
                res["skipped"].append({"id": m["id"], "why": "does not build: %s" % e})
            M.restore(scratch)
    finally:
        shutil.rmtree(scratch, ignore_errors=True)
    ctx.sensitivity = res
    print("sensitivity self-test: %d caught, %d missed, %d skipped (of %d changes that break %s)" % (
        len(res["caught"]), len(res["missed"]), len(res["skipped"]), len(cat), ctx.prop))
    for x in res["missed"]:
        print("  MISSED by %s rules: %s" % (ctx.prop, x["id"]))
    if "neutral_silent" in res:
        print("specificity self-test: %d of %d sampled behaviour-preserving edits leave %s silent" % (
            len(res["neutral_silent"]), len(res["neutral_silent"]) + len(res["neutral_alarm"]), ctx.prop))
        for x in res["neutral_alarm"]:
            print("  ALARM on a behaviour-preserving edit (a defect of the rules, not of the repository): %s %s" % (x["id"], x["reported"]))
