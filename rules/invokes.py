"""P8: which functions may run caller-supplied closures (user code), and where."""
import re

from .core import Prov

FN_CALL_RX = re.compile(r"core::ops::function::(FnOnce|FnMut|Fn)::call(_once|_mut)?$")
FN_BOUND_RX = re.compile(r"^(\w+): (core::ops::function::)?(FnOnce|FnMut|Fn)\b")


def fn_bounded_params(fn):
    """Names of generic parameters of fn bounded by an Fn* trait."""
    out = set()
    for p in fn.j.get("predicates", []):
        m = FN_BOUND_RX.match(p)
        if m:
            out.add(m.group(1))
    return out


class Invokes:
    def __init__(self, facts, prov=None):
        self.facts = facts
        self.prov = prov or Prov(facts)
        self.inv = {p: set() for p in facts.fns}
        self._compute()

    def _origin_keys(self, fn, op):
        out = set()
        for o in self.prov.of_operand(fn, op):
            if o.kind == "param":
                out.add(("param", o.key))
            elif o.kind == "upvar":
                out.add(("upvar", o.key))
        return out

    def _arg_sources(self, fn, arg):
        """What caller-visible values (params/upvars of fn) the callee would be invoking if it invokes `arg`."""
        cd = self.prov._closure_def(fn, arg) if arg["k"] in ("copy", "move") else None
        if cd:
            cf, agg = cd
            out = set()
            for (kind, name) in self.inv.get(cf.path, ()):
                if kind != "upvar":
                    continue
                for i, n in enumerate(agg["fields"]):
                    if n == name and i < len(agg["ops"]):
                        out |= self._origin_keys(fn, agg["ops"][i])
            return out, cf
        return self._origin_keys(fn, arg), None

    def _compute(self):
        changed = True
        rounds = 0
        while changed and rounds < 12:
            changed = False
            rounds += 1
            for p, fn in self.facts.fns.items():
                cur = self.inv[p]
                new = set(cur)
                for b in fn.calls():
                    t = fn.term(b)
                    if t["ck"] in ("unresolved", "virtual") and FN_CALL_RX.search(t["decl"]):
                        if t["args"]:
                            new |= self._origin_keys(fn, t["args"][0])
                        continue
                    h = self.facts.fns.get(t["callee"])
                    if h is not None and h.kind != "Closure":
                        for (kind, j) in self.inv.get(h.path, ()):
                            if kind == "param" and j - 1 < len(t["args"]):
                                src, _ = self._arg_sources(fn, t["args"][j - 1])
                                new |= src
                    elif h is not None and h.kind == "Closure":
                        # direct call of a local closure: FnOnce::call_once resolved to the closure body
                        if t["args"]:
                            src, _ = self._arg_sources(fn, t["args"][0])
                            new |= src
                    else:
                        # foreign callee: assume it invokes every closure / Fn-bounded value it is given
                        fb = fn_bounded_params(fn)
                        for a in t["args"]:
                            if a["k"] not in ("copy", "move"):
                                continue
                            cd = self.prov._closure_def(fn, a)
                            if cd:
                                src, _ = self._arg_sources(fn, a)
                                new |= src
                            elif not a["p"] and fn.locals[a["l"]] in fb:
                                new |= self._origin_keys(fn, a)
                if new != cur:
                    self.inv[p] = new
                    changed = True

    # ---- queries
    def param_is_user(self, fn, key):
        """Is (param i | upvar name) of fn a caller-supplied callable (its type is an Fn-bounded type parameter)?"""
        kind, k = key
        fb = fn_bounded_params(fn)
        if kind == "param":
            return 0 < k < len(fn.locals) and fn.locals[k] in fb
        if kind == "upvar":
            for c in fn.j.get("captures", []):
                if c["name"] == k and (c["ty"] in fb or c["ty"].lstrip("&").replace("mut ", "") in fb):
                    return True
            # a captured closure that itself invokes user code is resolved by the parent
            return False
        return False

    def user_sites(self, fn, blocks):
        """Call sites among `blocks` at which caller-supplied code may run. -> [(block, why)]"""
        out = []
        for b in sorted(blocks):
            t = fn.term(b)
            if t["k"] != "call":
                continue
            if t["ck"] in ("unresolved", "virtual") and FN_CALL_RX.search(t["decl"]):
                out.append((b, "calls %s on a value of type %s" % (t["decl"].rsplit("::", 1)[1], t.get("self_ty"))))
                continue
            h = self.facts.fns.get(t["callee"])
            if h is not None:
                keys = self.inv.get(h.path, set())
                for (kind, j) in keys:
                    if kind != "param" or j - 1 >= len(t["args"]):
                        continue
                    src, cf = self._arg_sources(fn, t["args"][j - 1])
                    users = [k for k in src if self.param_is_user(fn, k)]
                    if users:
                        out.append((b, "passes %s to %s, which invokes it" % (
                            ", ".join("%s %s" % k for k in users), h.path)))
            else:
                for a in t["args"]:
                    if a["k"] not in ("copy", "move"):
                        continue
                    cd = self.prov._closure_def(fn, a)
                    if cd:
                        src, cf = self._arg_sources(fn, a)
                        users = [k for k in src if self.param_is_user(fn, k)]
                        if users:
                            out.append((b, "hands a closure invoking %s to %s" % (users, t["callee"])))
                    elif not a["p"] and fn.locals[a["l"]] in fn_bounded_params(fn):
                        out.append((b, "hands the caller's closure _%d to %s" % (a["l"], t["callee"])))
        return out

    def residual_sites(self, fn, blocks):
        """Unresolved trait-method calls on type parameters other than Fn* (Into, IntoIterator, ...)."""
        out = []
        for b in sorted(blocks):
            t = fn.term(b)
            if t["k"] == "call" and t["ck"] == "unresolved" and not FN_CALL_RX.search(t["decl"]):
                out.append((b, t["decl"]))
        return out
