"""Type-level rules answered by the trait solver inside the driver (P9)."""
import re


def rule_not_clone(ctx, facts, rule):
    """C01-R7: a submitted span set cannot be duplicated except through the per-parent Arc."""
    for path in ("fastrace::collector::SpanSet", "fastrace::collector::global_collector::SpanCollection",
                 "fastrace::collector::command::CollectCommand", "fastrace::collector::command::SubmitSpans",
                 "fastrace::local::local_collector::LocalSpansInner"):
        adt = facts.adts.get(path)
        if adt is None:
            ctx.fail(rule, path, "-", "type exists", "anchor lost: %s" % path, extra="anchor")
            continue
        ctx.check(adt["auto"].get("Clone") is False and adt["auto"].get("Copy") is False, rule, path, adt["span"],
                  "%s implements neither Clone nor Copy (a queued span set cannot be duplicated)" % path.rsplit("::", 1)[1],
                  "trait solver: Clone=false", "trait solver: %s" % adt["auto"], extra="clone")
