"""Positive examples (configuration F) for expected-zero rules: each detector must report its forbidden shape on
every run and stay silent on the guarded twin; otherwise the check fails closed."""
import re

from .core import Prov, discr_cond_edges, bool_cond_edges
from .invokes import Invokes
from . import panics

P = "fixture_shapes::"


def _inv(ctx):
    F = ctx.facts("F")
    inv = panics.Inventory(ctx, F)
    return F, inv


def panics_detectors(ctx, rule):
    F, inv = _inv(ctx)

    def site_kinds(name):
        fn = F.fn(P + name)
        return fn, [(b, k) for (g, b, k, m) in inv.sites([fn] + F.closures_of(fn))] if fn else []
    fn, s = site_kinds("tls_with")
    ctx.check(any(k == "tls-with" for _, k in s), rule, "fixture::tls_with", "fixtures/shapes/src/lib.rs",
              "fixture: the LocalKey::with detector reports its positive example", "", "detector stopped matching LocalKey::with", extra="fixture")
    fn, s = site_kinds("unguarded_index")
    idx = [b for b, k in s if k == "index"]
    ctx.check(bool(idx) and inv.guard_index(fn, idx[0]) is None, rule, "fixture::unguarded_index", "fixtures/shapes/src/lib.rs",
              "fixture: an unguarded v[0] is inventoried and NOT discharged", "", "index detector / guard discharge broken", extra="fixture")
    fn, s = site_kinds("guarded_index")
    idx = [b for b, k in s if k == "index"]
    ctx.check(bool(idx) and inv.guard_index(fn, idx[0]) is not None, rule, "fixture::guarded_index", "fixtures/shapes/src/lib.rs",
              "fixture: v[0] under `len == 1` is discharged by the guard rule", "", "guard discharge no longer recognises len == 1", extra="fixture")
    fn, s = site_kinds("unguarded_unwrap")
    uw = [b for b, k in s if k == "unwrap"]
    ctx.check(bool(uw) and inv.guard_unwrap(fn, uw[0]) is None, rule, "fixture::unguarded_unwrap", "fixtures/shapes/src/lib.rs",
              "fixture: an unguarded unwrap() is inventoried and NOT discharged", "", "unwrap detector broken", extra="fixture")
    fn, s = site_kinds("guarded_unwrap")
    uw = [b for b, k in s if k == "unwrap"]
    ctx.check(bool(uw) and inv.guard_unwrap(fn, uw[0]) is not None, rule, "fixture::guarded_unwrap", "fixtures/shapes/src/lib.rs",
              "fixture: unwrap() after an is_none() early return is discharged", "", "guard discharge no longer recognises is_none()", extra="fixture")


def borrow_detectors(ctx, rule):
    F, inv = _inv(ctx)
    for name in ("closure_under_borrow", "closure_under_borrow_indirect"):
        fn = F.fn(P + name)
        found = False
        if fn is not None:
            for b in fn.calls_re(r"core::cell::RefCell::<T>::borrow_mut$", cleanup=False):
                live, rel = inv.live_range(fn, b)
                found = found or bool(inv.inv.user_sites(fn, live))
        ctx.check(found, rule, "fixture::" + name, "fixtures/shapes/src/lib.rs",
                  "fixture: a caller-supplied closure invoked under RefCell::borrow_mut (%s) is reported" % ("directly" if "indirect" not in name else "through a helper"),
                  "", "the user-code-under-borrow detector stopped matching", extra="fixture")
    fn = F.fn(P + "conditional_release")
    ok = False
    if fn is not None:
        b = fn.calls_re(r"core::cell::RefCell::<T>::borrow_mut$", cleanup=False)[0]
        live, rel = inv.live_range(fn, b)
        lens = fn.calls_re(r"alloc::vec::Vec::<T, A>::len$", cleanup=False)
        # the len() call is inside the live range; the early-return path is not live after the explicit drop
        ok = bool(lens) and lens[0] in live and bool(rel)
    ctx.check(ok, rule, "fixture::conditional_release", "fixtures/shapes/src/lib.rs",
              "fixture: live ranges follow explicit drop(guard) and drop flags", "", "live-range computation changed", extra="fixture")


def blocking_detector(ctx, rule, block_rx):
    F = ctx.facts("F")
    fn = F.fn(P + "sleepy")
    ctx.check(fn is not None and bool(fn.calls_re(block_rx, cleanup=False)), rule, "fixture::sleepy", "fixtures/shapes/src/lib.rs",
              "fixture: thread::sleep is recognised as a blocking callee", "", "blocking-callee table no longer matches thread::sleep", extra="fixture")


def lazy_detector(ctx, rule, Lazy, recording_edges):
    F = ctx.facts("F")
    lz = Lazy(F)
    import rules.props.c16 as c16
    old = c16.REC_TY
    try:
        c16.REC_TY = r"Option<(&(mut )?)?alloc::vec::Vec<u32>>"
        e = F.fn(P + "Holder::eager")
        l = F.fn(P + "Holder::lazy")
        bad = bool(lz.unguarded(e, ("param", 2))) if e else False
        good = (not lz.unguarded(l, ("param", 2)) and bool(lz.flows(l, ("param", 2)))) if l else False
    finally:
        c16.REC_TY = old
    ctx.check(bad and good, rule, "fixture::Holder", "fixtures/shapes/src/lib.rs",
              "fixture: the laziness rule reports a closure evaluated before the Some check and accepts the one evaluated behind it",
              "", "eager reported: %s, lazy accepted: %s" % (bad, good), extra="fixture")


def lifo_detector(ctx, rule):
    from . import spsc
    F = ctx.facts("F")
    prov = Prov(F)
    r = F.fn(P + "Lifo::replay")
    p = F.fn(P + "Lifo::park")
    ok = False
    if r and p:
        d = spsc.classify_ops(r, prov, "pending")
        e = spsc.classify_ops(p, prov, "pending")
        ok = any(role == "deq" and end == "back" for _, role, end, _ in d) and any(role == "enq" and end == "back" for _, role, end, _ in e)
    ctx.check(ok, rule, "fixture::Lifo", "fixtures/shapes/src/lib.rs",
              "fixture: Vec::push / Vec::pop are classified as the same end (a LIFO list would be reported)", "", "operation table changed", extra="fixture")
