"""E3: compile-fail witnesses with compiling twins (type-level facts asked of rustc itself)."""
import glob
import json
import os
import re
import subprocess
import tempfile

from . import build

WDIR = os.path.join(build.VERIF, "witness")


def _rmeta(facts_dir, cfg="E"):
    """The metadata file of exactly the fastrace build the facts came from (fact file and rmeta share cargo's -C metadata hash)."""
    deps = os.path.join(build.CACHE, "target-" + cfg, "debug", "deps")
    for f in glob.glob(os.path.join(facts_dir, "fastrace.*.json")):
        meta = os.path.basename(f).split(".")[1]
        p = os.path.join(deps, "libfastrace-%s.rmeta" % meta)
        if os.path.exists(p):
            return p, deps
    return None, deps


def variants(path):
    """(header, fail source, pass source): lines tagged `//~ FAIL` are dropped in the pass twin and lines
    `//~ PASS <code>` are activated in it -- the twins differ only in the offending line."""
    hdr = {}
    fail, ok = [], []
    for line in open(path).read().splitlines():
        m = re.match(r"//@ (\w+): (.*)", line)
        if m:
            hdr[m.group(1)] = m.group(2).strip()
            continue
        if "//~ FAIL" in line:
            fail.append(line)
            continue
        m = re.match(r"(\s*)//~ PASS (.*)", line)
        if m:
            ok.append(m.group(1) + m.group(2))
            continue
        fail.append(line)
        ok.append(line)
    return hdr, "\n".join(fail) + "\n", "\n".join(ok) + "\n"


def compile_src(src, rmeta, deps):
    rustc, libdir = build.nightly()
    with tempfile.TemporaryDirectory(prefix="verif-witness-") as td:
        f = os.path.join(td, "w.rs")
        with open(f, "w") as fh:
            fh.write(src)
        env = dict(os.environ)
        env["LD_LIBRARY_PATH"] = libdir
        r = subprocess.run([rustc, "--edition", "2021", "--crate-type", "bin", "--emit=metadata", "--error-format=json",
                            "-Awarnings", "--extern", "fastrace=" + rmeta, "-L", "dependency=" + deps, "-o", os.path.join(td, "w"), f],
                           capture_output=True, text=True, env=env)
    codes, text = [], []
    for line in r.stderr.splitlines():
        try:
            d = json.loads(line)
        except ValueError:
            continue
        if d.get("level") == "error":
            if d.get("code"):
                codes.append(d["code"]["code"])
            text.append(d.get("rendered") or d.get("message", ""))
    return r.returncode, codes, "\n".join(text)


def _target_tree(cfg="E"):
    try:
        with open(os.path.join(build.CACHE, "target-" + cfg, ".verif_tree")) as fh:
            return fh.read().strip()
    except OSError:
        return None


def run(ctx, rule, names):
    facts = ctx.facts("E")
    # the facts may come from the cache while the shared target directory has since been used for another tree (a scratch
    # copy in the thorough tier, a parallel run): the witnesses must link against THIS tree's metadata
    with build.Lock("build-E"):
        if _target_tree("E") != facts.info.get("tree_hash"):
            build.build("E", force=True, repo=ctx.repo, have_lock=True)
        return _run_locked(ctx, rule, names, facts)


def _run_locked(ctx, rule, names, facts):
    rmeta, deps = _rmeta(facts.dir, "E")
    if rmeta is None:
        ctx.fail(rule, "witness", "-", "fastrace metadata from the facts build is available", "no libfastrace-*.rmeta under %s" % deps, extra="rmeta")
        return
    for n in names:
        p = os.path.join(WDIR, n + ".rs")
        hdr, fsrc, psrc = variants(p)
        rc_f, codes, text = compile_src(fsrc, rmeta, deps)
        rc_p, pcodes, ptext = compile_src(psrc, rmeta, deps)
        ok_fail = rc_f != 0 and (hdr.get("error") in codes or hdr.get("error") == "any") and hdr.get("mention", "") in text
        ok_pass = rc_p == 0
        ctx.check(ok_fail and ok_pass, rule, "witness::" + n, "witness/%s.rs" % n,
                  "witness %s: the offending line fails to compile with %s mentioning `%s`, and the twin without it compiles" % (
                      n, hdr.get("error"), hdr.get("mention")),
                  "fail: %s; twin compiles" % codes,
                  "fail variant: rc=%d codes=%s mention=%s; pass twin: rc=%d %s" % (
                      rc_f, codes, hdr.get("mention", "") in text, rc_p, ptext[:300]), extra="witness")
