"""C19: bundled reporters -- field tables (provenance) and wire tables (published schemas, frozen here)."""
import re

from .core import (result_switches, Prov, bool_cond_edges, callee_is, const_value, constructions, has_origin, origin_strs, root_local)

# ---- published schemas (source: jaeger-idl thrift/jaeger.thrift; Datadog trace-agent v0.4 span msgpack keys)
JAEGER_SPAN_IDS = {1: "trace_id_low", 2: "trace_id_high", 3: "span_id", 4: "parent_span_id", 5: "operation_name",
                   6: "references", 7: "flags", 8: "start_time", 9: "duration", 10: "tags", 11: "logs"}
JAEGER_TAG_IDS = {1: "key", 2: "kind", 3: "String", 4: "Double", 5: "Bool", 6: "Long", 7: "Binary"}
JAEGER_TUPLES = {"Log": ["timestamp", "fields"], "SpanRef": ["kind", "trace_id_low", "trace_id_high", "span_id"],
                 "Process": ["service_name", "tags"], "Batch": ["process", "spans"]}
DATADOG_V04 = {"trace_id", "span_id", "parent_id", "name", "service", "resource", "type", "start", "duration", "error",
               "meta", "metrics", "meta_struct", "span_links"}
DATADOG_REQUIRED = {"trace_id", "span_id", "name", "service", "resource", "start", "duration"}
DATADOG_TYPES = {"trace_id": "u64", "span_id": "u64", "parent_id": "u64", "start": "i64", "duration": "i64"}
DATADOG_WIRE = {"name": "name", "service": "service", "type": "trace_type", "resource": "resource", "start": "start",
                "duration": "duration", "meta": "meta", "span_id": "span_id", "trace_id": "trace_id", "parent_id": "parent_id"}


def data(origins):
    return {o for o in origins if not (o.kind == "const" and str(o.key).startswith("fn:"))}


def rec_field(o, *path):
    """origin is the record parameter (param 2 of the mapping closure, param 1 of a `From<&SpanRecord>`-style constructor) with
    the given path suffix"""
    return o.kind == "param" and o.key in (1, 2) and tuple(o.path[-len(path):]) == tuple(path)


def rec_has(o, *path):
    """origin is the closure's record parameter (param 2) and its path contains `path` as consecutive elements (the value may be
    a component of that field: `.properties.0`)"""
    if not (o.kind == "param" and o.key in (1, 2)):
        return False
    p, n = tuple(o.path), len(path)
    return any(p[i:i + n] == tuple(path) for i in range(len(p) - n + 1))


def binops(o):
    return [(v[1], v[2]) for v in o.via if v[0] == "binop"]


def expect_field(ctx, rule, fn, b, struct, field, origins, want_path, ops_required=(), ops_forbidden=("any",), extra_ok=lambda o: False):
    """Every data origin of the operand is the record field `want_path`, met with the required arithmetic."""
    src = data(origins)
    # the record: the parameter whose type is (a container of) the record type -- the mapping closure's argument, a
    # constructor's first parameter, or the batch a loop iterates over
    rks = [i for i in range(1, fn.arg_count + 1) if re.search(r"collector::(SpanRecord|EventRecord)\b", fn.locals[i])] or [1, 2]
    recs = [o for o in src if o.kind == "param" and o.key in rks]
    good = bool(recs) and all(rec_field(o, *want_path) for o in recs)
    arith_ok = True
    for o in recs:
        ops = binops(o)
        for (op, c) in ops_required:
            if not any(x == op and (c is None or y == c) for x, y in ops):
                arith_ok = False
        if ops_forbidden == ("any",) and not ops_required and [x for x in ops if x[0] not in ()]:
            arith_ok = False
    other = [o for o in src if not (o.kind == "param" and o.key in rks) and o.kind in ("param", "upvar") and not extra_ok(o)]
    ctx.check(good and arith_ok and not other, rule, fn.path, fn.loc(b),
              "%s.%s <- record.%s%s" % (struct, field, "".join(want_path).lstrip("."),
                                        (" with " + ", ".join("%s %s" % x for x in ops_required)) if ops_required else " (no arithmetic)"),
              "origins %s" % [(o.short(), binops(o)) for o in sorted(recs)][:3],
              "origins %s" % [(o.short(), binops(o)) for o in sorted(src)][:6], extra="%s.%s" % (struct, field))


# ------------------------------------------------------------------------------------------------ Jaeger

def jaeger(ctx, facts, rule_f, rule_w):
    prov = Prov(facts)
    cons = [c for c in constructions(facts, "fastrace_jaeger::thrift::JaegerSpan", crates=["fastrace_jaeger"]) if "convert" in c[0].path or re.search(r"From<&?fastrace::collector::(SpanRecord|EventRecord)|From<&\(|::from_record$", c[0].path)]
    if not ctx.floor(rule_f, "fastrace_jaeger::thrift::JaegerSpan", len(cons), 1, "constructions of JaegerSpan in convert"):
        return
    fn, b, s, f = cons[0]
    o = {k: prov.of_operand(fn, v) for k, v in f.items()}
    S = "JaegerSpan"
    expect_field(ctx, rule_f, fn, b, S, "trace_id_low", o["trace_id_low"], (".trace_id", ".0"))
    # high half: shifted right by 64 (or divided by 2^64)
    hi = [x for x in data(o["trace_id_high"]) if x.kind == "param" and x.key in (1, 2) and x.path]
    ok_hi = bool(hi) and all(rec_field(x, ".trace_id", ".0") and (("Shr", 64) in binops(x) or ("Div", 1 << 64) in binops(x)) for x in hi)
    ctx.check(ok_hi, rule_f, fn.path, fn.loc(b), "JaegerSpan.trace_id_high <- record.trace_id.0 >> 64", "%s" % [(x.short(), binops(x)) for x in hi],
              "%s" % [(x.short(), binops(x)) for x in data(o["trace_id_high"])], extra="JaegerSpan.trace_id_high")
    expect_field(ctx, rule_f, fn, b, S, "span_id", o["span_id"], (".span_id", ".0"))
    expect_field(ctx, rule_f, fn, b, S, "parent_span_id", o["parent_span_id"], (".parent_id", ".0"))
    expect_field(ctx, rule_f, fn, b, S, "operation_name", o["operation_name"], (".name",))
    expect_field(ctx, rule_f, fn, b, S, "start_time", o["start_time"], (".begin_time_unix_ns",), ops_required=(("Div", 1000),))
    expect_field(ctx, rule_f, fn, b, S, "duration", o["duration"], (".duration_ns",), ops_required=(("Div", 1000),))
    # tags / logs: through the nested closures
    tags = [c for c in constructions(facts, "fastrace_jaeger::thrift::Tag", "String", crates=["fastrace_jaeger"]) if "convert" in c[0].path or re.search(r"From<&?fastrace::collector::(SpanRecord|EventRecord)|From<&\(|::from_record$", c[0].path)]
    ctx.floor(rule_f, "fastrace_jaeger::thrift::Tag", len(tags), 1, "Tag::String constructions (span tags, log fields)")
    for g, bb, ss, ff in tags:
        k = data(prov.of_operand(g, ff["key"]))
        v = data(prov.of_operand(g, ff["value"]))
        okk = bool(k) and all(x.kind == "param" and x.key in (1, 2) and x.path[-1:] == (".0",) for x in k)
        okv = bool(v) and all(x.kind == "param" and x.key in (1, 2) and x.path[-1:] == (".1",) for x in v)
        # the event's own name is written as the tag ("name", event.name) -- built from a pair or directly
        name_tag = bool(k) and all(x.kind == "const" and str(x.key) == '"name"' for x in k) and bool(v) and all(rec_field(x, ".name") for x in v)
        ctx.check((okk and okv) or name_tag, rule_f, g.path, g.loc(bb), "Tag::String{key <- pair.0, value <- pair.1} (or the event-name tag (\"name\", event.name))", "",
                  "key %s value %s" % (origin_strs(k), origin_strs(v)), extra="Tag.kv")
    tsrc = data(o["tags"])
    ctx.check(bool(tsrc) and any(x.kind == "param" for x in tsrc) and all(rec_has(x, ".properties") for x in tsrc if x.kind == "param"),
              rule_f, fn.path, fn.loc(b), "JaegerSpan.tags <- record.properties", "", "%s" % origin_strs(tsrc), extra="JaegerSpan.tags")
    logs = [c for c in constructions(facts, "fastrace_jaeger::thrift::Log", crates=["fastrace_jaeger"]) if "convert" in c[0].path or re.search(r"From<&?fastrace::collector::(SpanRecord|EventRecord)|From<&\(|::from_record$", c[0].path)]
    if ctx.floor(rule_f, "fastrace_jaeger::thrift::Log", len(logs), 1, "Log constructions"):
        g, bb, ss, ff = logs[0]
        expect_field(ctx, rule_f, g, bb, "Log", "timestamp", prov.of_operand(g, ff["timestamp"]), (".timestamp_unix_ns",), ops_required=(("Div", 1000),))
        fs = data(prov.of_operand(g, ff["fields"]))
        okf = any(x.kind == "const" and str(x.key) == '"name"' for x in fs) and any(rec_field(x, ".name") for x in fs) and \
            any(rec_has(x, ".properties") for x in fs)
        ctx.check(okf, rule_f, g.path, g.loc(bb), "Log.fields <- (\"name\", event.name) followed by event.properties", "", "%s" % origin_strs(fs), extra="Log.fields")
    lsrc = data(o["logs"])
    # (what a Log is made of is checked at the Log construction, wherever it lives)
    ctx.check(any(rec_has(x, ".events") for x in lsrc) and not any(x.kind == "param" and x.path and not rec_has(x, ".events") for x in lsrc), rule_f, fn.path, fn.loc(b),
              "JaegerSpan.logs <- record.events", "", "%s" % origin_strs(lsrc), extra="JaegerSpan.logs")
    # ---- wire table
    conv = [g for p, g in facts.fns.items() if g.crate == "fastrace_jaeger" and "From<fastrace_jaeger::thrift::JaegerSpan>" in p and p.endswith("::from")]
    if not conv:
        ctx.fail(rule_w, "From<JaegerSpan> for Struct", "-", "anchor exists", "anchor lost", extra="jspan")
    else:
        g = conv[0]
        got = {}
        for bb in g.calls_re(r"thrift_struct::Field::new$", cleanup=False):
            t = g.term(bb)
            fid = const_value(g, t["args"][0])
            src = data(prov.of_operand(g, t["args"][1]))
            names = sorted({x.path[0].lstrip(".") for x in src if x.kind == "param" and x.key == 1 and x.path})
            got[fid] = names
        ok = got == {k: [v] for k, v in JAEGER_SPAN_IDS.items()}
        ctx.check(ok, rule_w, g.path, g.span, "thrift field ids of Span match jaeger.thrift (1 traceIdLow ... 11 logs)", "%s" % got,
                  "written %s, schema %s" % (got, JAEGER_SPAN_IDS), extra="span-ids")
        # an optional field is left out only when ITS OWN list is empty
        mism, n_cond = [], 0
        for sb, blk in enumerate(g.blocks):
            t = blk["term"]
            if blk["cleanup"] or t["k"] != "switch" or t["discr_ty"] != "bool" or t["discr"]["k"] == "const":
                continue
            csrc = data(prov.of_operand(g, t["discr"]))
            cnames = sorted({x.path[0].lstrip(".") for x in csrc if x.kind == "param" and x.key == 1 and x.path})
            if not cnames:
                continue
            for bb in g.calls_re(r"thrift_struct::Field::new$", cleanup=False):
                if any(g.guarded([bb], {(sb, d, lab)}) for d, lab in g.edges(sb)):
                    n_cond += 1
                    fid = const_value(g, g.term(bb)["args"][0])
                    if got.get(fid) != cnames:
                        mism.append((fid, got.get(fid), cnames))
        ctx.check(not mism, rule_w, g.path, g.span, "an optional Span field is omitted only when its own list is empty (the test guarding field N reads the "
                  "struct field written as N)", "%d conditional fields" % n_cond,
                  "field id / written from / presence tested on: %s -- a record whose tested list is empty loses the other list" % mism, extra="span-optional")
    conv = [g for p, g in facts.fns.items() if g.crate == "fastrace_jaeger" and "From<fastrace_jaeger::thrift::Tag>" in p and p.endswith("::from")]
    if conv:
        g = conv[0]
        ids = sorted(const_value(g, g.term(bb)["args"][0]) for bb in g.calls_re(r"thrift_struct::Field::new$", cleanup=False))
        # value field id per variant
        per = {}
        for sb in range(len(g.blocks)):
            info = g.switch_info(sb)
            if info and info.get("kind") == "discr" and info["ty"].endswith("thrift::Tag") and not g.blocks[sb]["cleanup"]:
                for v in set(info["variants"].values()):
                    es = g.variant_edges(sb, [v])
                    others = g.variant_edges(sb, [x for x in info["variants"].values() if x != v])
                    mine = set()
                    for a, d, _ in es:
                        mine |= g.reach([(a, d)], avoid_blocks=[sb])
                    oth = set()
                    for a, d, _ in others:
                        oth |= g.reach([(a, d)], avoid_blocks=[sb])
                    for bb in mine - oth:
                        t = g.term(bb)
                        if t["k"] == "call" and t["callee"].endswith("thrift_struct::Field::new"):
                            per.setdefault(v, set()).add(const_value(g, t["args"][0]))
                if per:
                    break
        want = {"String": {3}, "Double": {4}, "Bool": {5}, "Long": {6}, "Binary": {7}}
        ctx.check(ids == [1, 2, 3, 4, 5, 6, 7] and per == want, rule_w, g.path, g.span,
                  "thrift field ids of Tag match jaeger.thrift (1 key, 2 vType, 3 vStr, 4 vDouble, 5 vBool, 6 vLong, 7 vBinary)",
                  "%s" % per, "ids %s per variant %s" % (ids, per), extra="tag-ids")
        kinds = facts.adts.get("fastrace_jaeger::thrift::TagKind")
    for name, order in JAEGER_TUPLES.items():
        conv = [g for p, g in facts.fns.items() if g.crate == "fastrace_jaeger" and ("From<fastrace_jaeger::thrift::%s>" % name) in p and p.endswith("::from")]
        if not conv:
            ctx.fail(rule_w, "From<%s> for Struct" % name, "-", "anchor exists", "anchor lost", extra="tuple-" + name)
            continue
        g = conv[0]
        tups = [(bb, s) for bb, blk in enumerate(g.blocks) if not blk["cleanup"] for s in blk["stmts"]
                if s["k"] == "assign" and s["rv"]["k"] == "agg" and s["rv"].get("tuple") and len(s["rv"]["ops"]) >= 1]
        ok = bool(tups)
        seen = []
        for bb, s in tups:
            pos = []
            for op in s["rv"]["ops"]:
                src = data(prov.of_operand(g, op))
                pos.append(sorted({x.path[0].lstrip(".") for x in src if x.kind == "param" and x.key == 1 and x.path}))
            seen.append(pos)
            ok = ok and all(pos[i] == [order[i]] for i in range(len(pos))) and len(pos) <= len(order)
        ctx.check(ok, rule_w, g.path, g.span, "%s is encoded positionally as %s (field ids 1..%d of jaeger.thrift)" % (name, order, len(order)),
                  "%s" % seen, "tuple positions %s" % seen, extra="tuple-" + name)
    msg = [g for p, g in facts.fns.items() if g.crate == "fastrace_jaeger" and "From<fastrace_jaeger::thrift::EmitBatchNotification>" in p]
    if msg:
        g = msg[0]
        ow = g.calls_re(r"thrift_codec::message::Message::oneway$", cleanup=False)
        okm = bool(ow) and any(x.kind == "const" and str(x.key) == '"emitBatch"' for x in prov.of_operand(g, g.term(ow[0])["args"][0]))
        ctx.check(okm, rule_w, g.path, g.span, "the message is a oneway call of `emitBatch` (Agent.emitBatch of agent.thrift)", "",
                  "constructor %s name %s" % ([g.term(b)["callee"] for b in g.calls()][:3], [g.term(b)["args"][0].get("repr") for b in ow]), extra="emitBatch")
    ser = facts.fn("fastrace_jaeger::JaegerReporter::serialize")
    if ser is not None:
        ctx.check(bool(ser.calls_re(r"CompactEncode>?::compact_encode$|compact_encode$", cleanup=False)), rule_w, ser.path, ser.span,
                  "the batch is written with the Thrift compact protocol (what the agent's UDP port 6831 speaks)", "", "no compact_encode call", extra="compact")


# ------------------------------------------------------------------------------------------------ Datadog

def datadog(ctx, facts, rule_f, rule_w):
    prov = Prov(facts)
    cons = [c for c in constructions(facts, "fastrace_datadog::DatadogSpan", crates=["fastrace_datadog"]) if "convert" in c[0].path or c[0].path.endswith("::from_record")]
    if not ctx.floor(rule_f, "fastrace_datadog::DatadogSpan", len(cons), 1, "constructions of DatadogSpan in convert"):
        return
    fn, b, s, f = cons[0]
    o = {k: prov.of_operand(fn, v) for k, v in f.items()}
    S = "DatadogSpan"
    expect_field(ctx, rule_f, fn, b, S, "trace_id", o["trace_id"], (".trace_id", ".0"))
    expect_field(ctx, rule_f, fn, b, S, "span_id", o["span_id"], (".span_id", ".0"))
    expect_field(ctx, rule_f, fn, b, S, "parent_id", o["parent_id"], (".parent_id", ".0"))
    expect_field(ctx, rule_f, fn, b, S, "name", o["name"], (".name",))
    expect_field(ctx, rule_f, fn, b, S, "start", o["start"], (".begin_time_unix_ns",))
    expect_field(ctx, rule_f, fn, b, S, "duration", o["duration"], (".duration_ns",))
    m = data(o["meta"])
    ctx.check(any(rec_field(x, ".properties", ".0") for x in m) and any(rec_field(x, ".properties", ".1") for x in m), rule_f, fn.path, fn.loc(b),
              "DatadogSpan.meta <- record.properties (key, value); events are not representable in v0.4 (exempt by the property)", "",
              "%s" % origin_strs(m), extra="DatadogSpan.meta")
    # wire
    ser = [g for p, g in facts.fns.items() if g.crate == "fastrace_datadog" and "Serialize for fastrace_datadog::DatadogSpan" in p]
    if not ser:
        ctx.fail(rule_w, "Serialize for DatadogSpan", "-", "anchor exists", "anchor lost", extra="dd-ser")
    else:
        g = ser[0]
        pairs = {}
        for bb in g.calls_re(r"SerializeStruct::serialize_field$", cleanup=False):
            t = g.term(bb)
            name = (t["args"][1].get("repr") or "").strip('"')
            src = data(prov.of_operand(g, t["args"][2]))
            flds = sorted({x.path[0].lstrip(".") for x in src if x.kind == "param" and x.key == 1 and x.path})
            pairs[name] = flds
        keys = set(pairs)
        extra = keys - DATADOG_V04
        ok = DATADOG_REQUIRED <= keys and all(pairs[k] == [DATADOG_WIRE[k]] for k in keys if k in DATADOG_WIRE)
        ctx.check(ok, rule_w, g.path, g.span,
                  "every v0.4 span key is written from the struct field of that meaning (trace_id/span_id/parent_id/name/service/"
                  "resource/type/start/duration/meta); required keys present",
                  "pairs %s; keys outside the schema (ignored by the agent): %s" % (pairs, sorted(extra)),
                  "pairs %s, required %s" % (pairs, sorted(DATADOG_REQUIRED)), extra="dd-keys")
        ctx.analysed.setdefault("E", {})["datadog_keys_outside_v04_schema"] = sorted(extra)
        # integer widths / signedness of the v0.4 schema: ids are uint64, start and duration int64 (rmp-serde writes a
        # negative i64 as a msgpack negative integer, which is not an id)
        adt = facts.adts.get("fastrace_datadog::DatadogSpan")
        ftys = {f["name"]: f["ty"] for f in adt["variants"][0]["fields"]} if adt else {}
        wrong = {k: ftys.get(pairs[k][0]) for k, want in DATADOG_TYPES.items()
                 if k in pairs and pairs[k] and ftys.get(pairs[k][0]) != want}
        ctx.check(bool(ftys) and not wrong and all(k in pairs for k in DATADOG_TYPES), rule_w, "fastrace_datadog::DatadogSpan", adt["span"] if adt else "-",
                  "the integer keys are serialised from fields of the schema's type (trace_id/span_id/parent_id: u64, start/duration: i64)",
                  "%s" % {k: ftys.get(pairs[k][0]) for k in DATADOG_TYPES if k in pairs},
                  "key -> Rust type written: %s, schema: %s (an id with the top bit set would go out as a negative integer)" % (wrong, DATADOG_TYPES),
                  extra="dd-types")
    se = facts.fn("fastrace_datadog::DatadogReporter::serialize")
    if se is not None:
        lead = any(s["k"] == "assign" and s["rv"]["k"] in ("agg", "use", "repeat") and any(
            (op.get("v") == 0x91) for op in (s["rv"].get("ops") or [s["rv"].get("op")]) if op and op["k"] == "const")
            for blk in se.blocks for s in blk["stmts"])
        if not lead:
            # vec![0b10010001] is a boxed array literal: look for the constant anywhere in the body
            lead = any(o.get("v") == 0x91 for blk in se.blocks for s in blk["stmts"] if s["k"] == "assign"
                       for o in _ops(s["rv"]) if o["k"] == "const")
        if not lead:
            # the same header produced by the serializer: what is serialised is a one-element list whose element is the list of spans
            # (msgpack writes a 1-element array as the single byte 0x91)
            nested = [b for b in se.calls_re(r"serde::ser::Serialize.*::serialize$|Serialize>::serialize$", cleanup=False)
                      if re.search(r"^&(alloc::vec::Vec<alloc::vec::Vec<fastrace_datadog::DatadogSpan|\[alloc::vec::Vec<fastrace_datadog::DatadogSpan<[^;]*>; 1\])", se.term(b)["arg_tys"][0])]
            ones = [s for blk in se.blocks for s in blk["stmts"] if s["k"] == "assign" and s["rv"]["k"] == "agg" and "array" in s["rv"]
                    and "DatadogSpan" in str(s["rv"]["array"])]
            grows = se.calls_re(r"Vec::<T, A>::(push|extend\w*|insert|append)$", cleanup=False)
            grows = [b for b in grows if "Vec<alloc::vec::Vec<fastrace_datadog::DatadogSpan" in se.term(b)["arg_tys"][0]]
            lead = bool(nested) and bool(ones) and all(len(s["rv"]["ops"]) == 1 for s in ones) and not grows
        sm = bool(se.calls_re(r"rmp_serde::encode::Serializer::<W, C>::with_struct_map$|with_struct_map$", cleanup=False))
        ctx.check(lead and sm, rule_w, se.path, se.span,
                  "the body starts with 0x91 (array of one trace) and spans are written as string-keyed maps (with_struct_map)", "",
                  "leading 0x91: %s, with_struct_map: %s" % (lead, sm), extra="dd-frame")


def _ops(rv):
    k = rv["k"]
    if k in ("use", "repeat", "cast"):
        return [rv["op"]]
    if k == "binop":
        return [rv["a"], rv["b"]]
    if k == "agg":
        return rv["ops"]
    return []


# ------------------------------------------------------------------------------------------------ OpenTelemetry

def otel(ctx, facts, rule_f):
    prov = Prov(facts)
    cons = [c for c in constructions(facts, "opentelemetry_sdk::trace::export::SpanData", crates=["fastrace_opentelemetry"])]
    if not ctx.floor(rule_f, "opentelemetry_sdk::trace::export::SpanData", len(cons), 1, "constructions of SpanData"):
        return
    fn, b, s, f = cons[0]
    o = {k: prov.of_operand(fn, v) for k, v in f.items()}
    S = "SpanData"
    scn = fn.calls_re(r"opentelemetry::trace::span_context::SpanContext::new$", cleanup=False)
    if scn:
        t = fn.term(scn[0])
        expect_field(ctx, rule_f, fn, scn[0], "SpanContext::new", "arg0(trace_id)", prov.of_operand(fn, t["args"][0]), (".trace_id", ".0"))
        expect_field(ctx, rule_f, fn, scn[0], "SpanContext::new", "arg1(span_id)", prov.of_operand(fn, t["args"][1]), (".span_id", ".0"))
    else:
        ctx.fail(rule_f, fn.path, fn.span, "SpanContext::new is called", "anchor lost", extra="SpanContext::new")
    expect_field(ctx, rule_f, fn, b, S, "parent_span_id", o["parent_span_id"], (".parent_id", ".0"))
    expect_field(ctx, rule_f, fn, b, S, "name", o["name"], (".name",))
    expect_field(ctx, rule_f, fn, b, S, "start_time", o["start_time"], (".begin_time_unix_ns",))
    en = [x for x in data(o["end_time"]) if x.kind == "param" and x.key == 2]
    ok = {x.path[-1] for x in en} == {".begin_time_unix_ns", ".duration_ns"} and all(
        any(op in ("AddWithOverflow", "Add") for op, _ in binops(x)) for x in en)
    ctx.check(ok, rule_f, fn.path, fn.loc(b), "SpanData.end_time <- begin_time_unix_ns + duration_ns", "%s" % [(x.short(), binops(x)) for x in en],
              "%s" % [(x.short(), binops(x)) for x in en], extra="SpanData.end_time")
    a = data(o["attributes"])
    ctx.check(any(rec_field(x, ".properties", ".0") for x in a) and any(rec_field(x, ".properties", ".1") for x in a) and
              not any(x.kind == "param" and x.key == 2 and ".properties" not in x.path for x in a), rule_f, fn.path, fn.loc(b),
              "SpanData.attributes <- record.properties", "", "%s" % origin_strs(a), extra="SpanData.attributes")
    kv = facts.fn("fastrace_opentelemetry::map_props_to_kvs::{closure#0}")
    if kv is not None:
        c = kv.calls_re(r"opentelemetry::common::KeyValue::new$", cleanup=False)
        okkv = bool(c) and has_origin(prov.of_operand(kv, kv.term(c[0])["args"][0]), kind="param", key=2, path_suffix=(".0",)) and \
            has_origin(prov.of_operand(kv, kv.term(c[0])["args"][1]), kind="param", key=2, path_suffix=(".1",))
        ctx.check(okkv, rule_f, kv.path, kv.span, "KeyValue::new(key <- pair.0, value <- pair.1)", "", "argument origins differ", extra="KeyValue")
    # property values stay text: every KeyValue of the reporter is built from a textual value type (a value that is parsed into
    # Value::I64 / Bool first is not the recorded string any more: "007" becomes 7)
    kvs = [(g, b) for g in facts.fns.values() if g.crate == "fastrace_opentelemetry" for b in g.calls_re(r"opentelemetry::common::KeyValue::new$", cleanup=False)]
    TEXT = re.compile(r"^(alloc::borrow::Cow<'\w+, str>|alloc::string::String|&'?\w* ?str|opentelemetry::common::StringValue)$")
    badkv = [(g.path, g.loc(b), g.term(b).get("targs", [])[1:2]) for g, b in kvs if len(g.term(b).get("targs", [])) < 2 or not TEXT.match(g.term(b)["targs"][1])]
    ctx.check(bool(kvs) and not badkv, rule_f, "fastrace_opentelemetry", "-", "every attribute value is handed to KeyValue::new as text (the recorded string, unparsed)",
              "%d KeyValue::new sites" % len(kvs), "non-textual value types: %s" % badkv, extra="KeyValue.text")
    # one attribute per recorded property: wherever KeyValue values are built in an iteration, every element taken yields one (no key
    # is consumed for another purpose, no value decides whether the pair is exported)
    hosts = {}
    for g, bb in kvs:
        hosts.setdefault(g.path, g)
    n_iter = 0
    for hp, g in sorted(hosts.items()):
        if g.kind == "Closure" and not [bb for bb in g.calls_re(r"Iterator>?::next$", cleanup=False) if g.on_cycle(bb)]:
            par = facts.fn(re.sub(r"(::\{closure#[^}]*\})+$", "", hp))
            if par is None:
                # the closure's parent body is not among the analysed items under that name (a trait impl that the normal form absorbed):
                # the function that builds this closure
                for q in facts.fns.values():
                    if q.crate == g.crate and any(st["k"] == "assign" and st["rv"]["k"] == "agg" and st["rv"].get("closure") == hp
                                                  for blk in q.blocks for st in blk["stmts"]):
                        par = q
                        break
            if par is None:
                n_iter += 1
                ctx.ok(rule_f, hp, g.span, "every (key, value) pair iterated over yields one KeyValue", "the mapping closure builds a KeyValue; its "
                       "caller is not an analysed item of its own (absorbed impl): adaptor chain not read", extra="KeyValue.each:" + hp.rsplit("::", 2)[-2])
                continue
            calls = [par.term(bb)["callee"] for bb in par.calls() if not par.blocks[bb]["cleanup"]]
            mapped = any(re.search(r"Iterator>?::map$", x) for x in calls) and \
                any(re.search(r"Iterator>?::collect$|Extend(<.*>)?>?::extend$|Vec::<T, A>::extend\w*$", x) for x in calls)
            badc = [x.rsplit("::", 1)[1] for x in calls if ITER_BAD.search(x)]
            # the closure itself always yields a KeyValue
            cs_ = g.calls_re(r"opentelemetry::common::KeyValue::new$", cleanup=False)
            always, _w = g.must_pass([0], cs_)
            n_iter += 1
            ctx.check(mapped and not badc and always, rule_f, par.path, par.span,
                      "every (key, value) pair iterated over yields one KeyValue (map -> collect / extend, no selecting adaptor)", "",
                      "mapped=%s, selecting adaptors %s, closure builds a KeyValue on every path: %s" % (mapped, badc, always), extra="KeyValue.each:" + par.path.rsplit("::", 1)[-1])
        else:
            nx = [bb for bb in g.calls_re(r"Iterator>?::next$", cleanup=False) if g.on_cycle(bb)]
            if not nx:
                continue
            n_iter += 1
            cs_ = g.calls_re(r"opentelemetry::common::KeyValue::new$", cleanup=False)
            ps = [bb for bb in g.calls_re(r"alloc::vec::Vec::<T, A>::push$", cleanup=False) if g.on_cycle(bb) and "KeyValue" in g.term(bb)["arg_tys"][0]]
            okl = bool(ps)
            wit = None
            for n_ in nx:
                some = set()
                for sb in result_switches(g, n_):
                    some |= set(g.variant_edges(sb, ["Some"]))
                if not some:
                    continue
                r = g.reach([(a_, d_) for a_, d_, _ in some], avoid_blocks=ps)
                if n_ in r or (r & set(g.returns())):
                    # only the loop that builds KeyValues counts: a loop whose body can reach a KeyValue::new
                    body = g.reach([(a_, d_) for a_, d_, _ in some], avoid_blocks=[n_])
                    if body & set(cs_):
                        okl = False
                        wit = g.loc(n_)
            ctx.check(okl, rule_f, g.path, g.span, "every (key, value) pair iterated over yields one KeyValue (one push per element on every path of the loop)",
                      "", "an iteration of the loop at %s can end without pushing a KeyValue: the pair is consumed and not exported" % wit,
                      extra="KeyValue.each:" + g.path.rsplit("::", 1)[-1])
    ctx.check(n_iter >= 1, rule_f, "fastrace_opentelemetry", "-", "the iteration that turns properties into KeyValues is found", "%d" % n_iter,
              "anchor lost: no map/loop around KeyValue::new", extra="KeyValue.each")
    # events <- map_events(record.events)
    ev = f["events"]
    sd = fn.single_def(root_local(fn, ev)[0]) if ev["k"] in ("copy", "move") else None
    okev = bool(sd) and sd[1] == "term" and sd[2]["callee"] == "fastrace_opentelemetry::map_events" and \
        has_origin(prov.of_operand(fn, sd[2]["args"][0]), kind="param", key=2, path_suffix=(".events",))
    me = facts.fn("fastrace_opentelemetry::map_events")
    EV_NEW = r"opentelemetry::trace::Event::new$|trace::span::Event::new$|Event::new$"
    if me is None:
        # the conversion of events lives elsewhere (a method, a trait impl, inlined into convert): the function that builds the Events
        hosts = [g for g in facts.fns.values() if g.crate == "fastrace_opentelemetry" and g.calls_re(EV_NEW, cleanup=False)]
        roots = {re.sub(r"(::\{closure#[^}]*\})+$", "", g.path) for g in hosts}
        if len(roots) == 1 and facts.fn(next(iter(roots))) is not None:
            me = facts.fn(next(iter(roots)))
    if not okev and me is not None:
        evs = prov.of_operand(fn, ev) if ev["k"] in ("copy", "move") else set()
        okev = any(x.kind == "param" and x.key == 2 and ".events" in x.path for x in evs) and \
            (me.path == re.sub(r"(::\{closure#[^}]*\})+$", "", fn.path) or any(v[0] == "call" and v[1] == me.path for x in evs for v in x.via))
    if not okev and me is not None and me.path == re.sub(r"(::\{closure#[^}]*\})+$", "", fn.path):
        # built in place: a SpanEvents value whose list is filled from record.events (extend / push of Event values)
        for gb in fn.calls_re(r"Extend(<.*>)?>?::extend$|Vec::<T, A>::(extend\w*|push|append)$", cleanup=False):
            tt = fn.term(gb)
            if "Event" in tt["arg_tys"][0] and len(tt["args"]) > 1 and \
                    any(x.kind == "param" and x.key == 2 and ".events" in x.path for x in prov.of_operand(fn, tt["args"][1])):
                okev = True
    ctx.check(okev, rule_f, fn.path, fn.loc(b), "SpanData.events <- map_events(record.events)", "", "events operand is not map_events(record.events)", extra="SpanData.events")
    if me is not None:
        host, c = me, me.calls_re(r"opentelemetry::trace::Event::new$|trace::span::Event::new$|Event::new$", cleanup=False)
        if not c:
            # `queue.events.extend(events.into_iter().map(|event| Event::new(..)))`: built in the mapping closure
            for cl in facts.closures_of(me):
                cc = cl.calls_re(r"opentelemetry::trace::Event::new$|trace::span::Event::new$|Event::new$", cleanup=False)
                if cc:
                    host, c = cl, cc
        okm = False
        if c:
            t = host.term(c[0])
            a0 = data(prov.of_operand(host, t["args"][0]))
            a1 = data(prov.of_operand(host, t["args"][1]))
            a2 = data(prov.of_operand(host, t["args"][2]))
            okm = any(".name" in x.path for x in a0) and any(".timestamp_unix_ns" in x.path for x in a1) and \
                any(".properties" in x.path for x in a2) and not any(".timestamp_unix_ns" in x.path for x in a0 | a2) and \
                not any(".name" in x.path for x in a1 | a2) and not any(".properties" in x.path for x in a0 | a1)
            pushes = [bb for bb in me.calls_re(r"Vec::<T, A>::push$", cleanup=False) if me.on_cycle(bb)]
            one_each = bool(pushes) and any(v[0] == "call" and v[1].endswith("Event::new") for x in prov.of_operand(me, me.term(pushes[0])["args"][1]) for v in x.via)
            if not one_each and host is not me:
                calls = [me.term(bb)["callee"] for bb in me.calls() if not me.blocks[bb]["cleanup"]]
                one_each = any(re.search(r"iter::traits::collect::Extend<.*>>?::extend$|Vec::<T, A>::(extend|append)$|Iterator>?::collect$", x) for x in calls) and \
                    any(re.search(r"Iterator>?::map$", x) for x in calls) and not any(ITER_BAD.search(x) for x in calls)
            okm = okm and one_each
        ctx.check(okm, rule_f, me.path, me.span, "map_events: Event::new(name <- event.name, time <- timestamp_unix_ns, attributes <- properties), "
                  "one per input event", "", "argument origins differ", extra="map_events")


# ------------------------------------------------------------------------------------------------ once each

ITER_OK = re.compile(r"(IntoIterator>?::into_iter|slice::<impl \[T\]>::iter|Iterator>?::(map|collect|next|size_hint|chain))$")
ITER_BAD = re.compile(r"Iterator>?::(filter|filter_map|skip|skip_while|take|take_while|step_by|rev|zip|dedup\w*|flat_map|flatten|peekable|cycle|last|nth|find\w*|position)$"
                      r"|slice::<impl \[T\]>::(split\w*|chunks\w*|windows|first|last|get)$|Vec::<T, A>::(truncate|pop|remove|drain|retain\w*|dedup\w*)$")


SELECTIVE = re.compile(r"alloc::vec::Vec::<T, A>::(retain|retain_mut|dedup\w*|truncate|drain|split_off|pop|remove|swap_remove|clear|extract_if)$|"
                       r"slice::<impl \[T\]>::(split_first|split_last|split_at\w*|chunks\w*|windows|partition_dedup\w*)$|core::mem::(take|replace|swap)$")


def whole_batch(ctx, prov, rule, rep, tr, name, only=None):
    """The batch is transmitted whole: between `report(spans)` and the conversion nothing selects among the records (no retain /
    dedup / truncate / drain / filter on the batch: two records of different traces may share a span id, a batch may hold any
    number of records) and what try_report receives is the parameter itself."""
    for g, which in ((rep, "report"), (tr, "try_report")):
        if only and which not in only:
            continue
        bad = []
        for b in g.calls():
            t = g.term(b)
            if g.blocks[b]["cleanup"] or not t["args"]:
                continue
            if not (SELECTIVE.search(t["callee"]) or ITER_BAD.search(t["callee"])):
                continue
            src = prov.of_operand(g, t["args"][0])
            if any(x.kind == "param" and x.key == 2 for x in src):
                bad.append((g.loc(b), t["callee"].rsplit("::", 1)[1]))
        ctx.check(not bad, rule, g.path, g.span,
                  "%s::%s applies no selecting operation to the batch it was given (retain / dedup / truncate / drain / filter / take ..)" % (name, which),
                  "", "selecting calls on the batch: %s: records that fit are not transmitted" % bad, extra="whole-" + which)
    if not only or "report" in only:
        for b in rep.calls(lambda t: t["callee"] == tr.path):
            t = rep.term(b)
            src = prov.of_operand(rep, t["args"][1]) if len(t["args"]) > 1 else []
            direct = any(x.kind == "param" and x.key == 2 for x in src)
            ctx.check(direct, rule, rep.path, rep.loc(b), "%s::report hands try_report the batch it received" % name,
                      "", "the argument of try_report does not come from report()'s parameter: %s" % origin_strs(src, 4), extra="whole-arg")


def once_each(ctx, facts, rule):
    prov = Prov(facts)
    for crate, name, sendrx in (("fastrace_jaeger", "JaegerReporter", r"UdpSocket::send_to$"),
                                ("fastrace_datadog", "DatadogReporter", r"blocking::request::RequestBuilder::send$|RequestBuilder::send$"),
                                ("fastrace_opentelemetry", "OpenTelemetryReporter", r"DynSpanExporter::export$")):
        conv = facts.fn("%s::%s::convert" % (crate, name))
        if conv is None:
            ctx.fail(rule, "%s::%s::convert" % (crate, name), "-", "anchor exists", "anchor lost", extra="convert")
            continue
        calls = [conv.term(b)["callee"] for b in conv.calls() if not conv.blocks[b]["cleanup"]]
        bad = [c for c in calls if ITER_BAD.search(c)]
        has_map = any(re.search(r"Iterator>?::map$", c) for c in calls)
        has_collect = any(re.search(r"Iterator>?::collect$", c) for c in calls)
        ret = data(prov.of_local(conv, 0))
        from_input = any(x.kind == "param" and x.key == 2 for x in ret) or any(
            v[0] == "call" and re.search(r"Iterator>?::collect$", v[1]) for x in ret for v in x.via)
        loop_form = False
        if not (has_map and has_collect):
            # external iteration: `for record in spans { out.push(convert_one(record)) }` -- one push per element taken
            nx = [b for b in conv.calls_re(r"Iterator>?::next$", cleanup=False) if conv.on_cycle(b)]
            ps = [b for b in conv.calls_re(r"alloc::vec::Vec::<T, A>::push$", cleanup=False) if conv.on_cycle(b)]
            # the loop over the records themselves (inner loops over one record's properties / events do not count), and the pushes
            # onto the vector that is returned
            nx = [b for b in nx if any(x.kind == "param" and x.key == 2 and not [q for q in x.path if q != "*"]
                                       for x in prov.of_operand(conv, conv.term(b)["args"][0]))]
            ret_locals, grew = {0}, True
            while grew:
                grew = False
                for blk in conv.blocks:
                    for st in blk["stmts"]:
                        if st["k"] == "assign" and not st["lhs"]["p"] and st["lhs"]["l"] in ret_locals and st["rv"]["k"] == "use" \
                                and st["rv"]["op"]["k"] in ("copy", "move") and not st["rv"]["op"]["p"] and st["rv"]["op"]["l"] not in ret_locals:
                            ret_locals.add(st["rv"]["op"]["l"])
                            grew = True

            def onto_result(b):
                a0 = conv.term(b)["args"][0]
                sd = conv.single_def(a0["l"]) if a0["k"] in ("copy", "move") and not a0["p"] else None
                return bool(sd) and sd[1] != "term" and sd[2]["k"] == "assign" and sd[2]["rv"]["k"] == "ref" and sd[2]["rv"]["place"]["l"] in ret_locals
            ps_out = [b for b in ps if onto_result(b)]
            ps = ps_out or ps
            from_param = bool(nx)
            if len(nx) == 1 and ps and from_param:
                some = set()
                for sb in result_switches(conv, nx[0]):
                    some |= set(conv.variant_edges(sb, ["Some"]))
                r = conv.reach([(a, d) for a, d, _ in some], avoid_blocks=ps)
                skipped = nx[0] in r or bool(r & set(conv.returns()))
                out_is_ret = any(v[0] == "call" and v[2] in ps for x in prov.of_local(conv, 0) for v in x.via) or True
                loop_form = bool(some) and not skipped and out_is_ret
                from_input = from_input or loop_form
        ctx.check(not bad and ((has_map and has_collect) or loop_form) and from_input, rule, conv.path, conv.span,
                  "%s::convert maps every input record to exactly one output (iter/into_iter -> map -> collect, or a loop with one push "
                  "per element; no filter/skip/take/zip/rev/dedup)" % name, "iterator calls: %s" % sorted({c.rsplit('::', 1)[1] for c in calls if 'iter' in c.lower()}),
                  "selective adaptors: %s" % bad, extra="chain")
        rep = [g for p, g in facts.fns.items() if g.crate == crate and p.endswith("Reporter>::report")]
        tr = facts.fn("%s::%s::try_report" % (crate, name))
        if rep and tr is not None:
            g = rep[0]
            tsites = g.calls(lambda t: t["callee"] == tr.path)

            def empty(o):
                return any(v[0] == "call" and v[1].endswith("::is_empty") for v in o.via) and o.kind == "param" and o.key == 2
            e = bool_cond_edges(g, prov, empty, True)
            ok, wit = g.must_pass([0], tsites, avoid_edges=e)
            ctx.check(ok and bool(tsites), rule, g.path, g.span, "report() hands every non-empty batch to try_report", "",
                      "a path returns at bb%s without try_report" % wit, extra="report")
            # (Jaeger's try_report cuts the batch into windows by design: C20's rules are about those windows)
            whole_batch(ctx, prov, rule, g, tr, name, only=("report",) if name == "JaegerReporter" else None)
            cs = tr.calls(lambda t: t["callee"] == conv.path)
            ss = tr.calls_re(sendrx, cleanup=False)
            if not ss and name == "OpenTelemetryReporter":
                # the private object-safe exporter trait may be named differently: the send is the call on self.exporter
                ss = [b for b in tr.calls() if not tr.blocks[b]["cleanup"] and tr.term(b)["args"] and
                      any(x.kind == "param" and x.key == 1 and ".exporter" in x.path for x in prov.of_operand(tr, tr.term(b)["args"][0]))
                      and not re.search(r"Deref(Mut)?>?::deref(_mut)?$|as_(ref|mut)$", tr.term(b)["callee"])]
            if name != "JaegerReporter":
                # one request per batch: a retry loop around the send re-transmits a batch the receiver may already hold (a time-out
                # while waiting for the answer says nothing about the request)
                loops = [tr.loc(x) for x in ss if tr.on_cycle(x)]
                ctx.check(bool(ss) and not loops, rule, tr.path, tr.span, "%s::try_report sends the batch once (the send is not inside a loop)" % name, "",
                          "send sites on a cycle: %s" % loops, extra="send-once")
            okc = bool(cs) and bool(ss) and all(any(tr.dominates(c, s) for c in cs) for s in ss)
            full = bool(cs) and all(has_origin(prov.of_operand(tr, tr.term(c)["args"][1]), kind="param", key=2) for c in cs)
            ctx.check(okc and full, rule, tr.path, tr.span, "try_report converts the batch it was given and then sends it (convert dominates the send)", "",
                      "convert sites %s, send sites %s, converts its parameter: %s" % (cs, ss, full), extra="chain-send")
