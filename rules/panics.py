"""C07 (and C12-R4): panic-site inventory with discharge, borrow discipline, thread-local access, locks, blocking."""
import re

from .core import (Prov, bool_cond_edges, callee_is, discr_cond_edges, has_origin, origin_strs, result_switches,
                   root_local, sites_star, fields_of, const_value, equal_edges)
from .invokes import Invokes
from . import collector as coll

PANICKY = [
    (r"core::option::Option::<T>::(unwrap|expect)$", "unwrap"),
    (r"core::result::Result::<T, E>::(unwrap|expect|unwrap_err|expect_err)$", "unwrap"),
    (r"core::ops::index::Index(Mut)?::index(_mut)?$", "index"),
    (r"core::cell::RefCell::<T>::(borrow|borrow_mut)$", "borrow"),
    (r"std::thread::local::LocalKey::<T>::(with|with_borrow|with_borrow_mut|set|get|take|replace)$", "tls-with"),
    (r"^core::panicking::|^std::rt::begin_panic|^std::panicking::", "panic"),
    (r"alloc::vec::Vec::<T, A>::(remove|insert|swap_remove|split_off|drain|truncate_front)$", "vec-range"),
    (r"vec_deque::VecDeque::<T, A>::(remove|insert|swap|drain|split_off)$", "vec-range"),
    (r"slice::<impl \[T\]>::(copy_from_slice|split_at|split_at_mut|swap|chunks|windows)$", "slice-op"),
    (r"core::ops::arith::(Add|Sub|Mul|Div|Rem|AddAssign|SubAssign|MulAssign|DivAssign)::\w+$", "arith-op"),
    (r"core::slice::index::slice_(start|end)_index_len_fail|core::slice::index::slice_index_order_fail", "panic"),
    (r"core::str::<impl str>::(split_at)$|core::str::traits::<impl core::ops::index::Index", "index"),
]
_PANICKY_RX = [(re.compile(rx), k) for rx, k in PANICKY]

# Sites that can fail only when guards / local spans are released out of order, which C07 excludes.
# (function path regex, site kind, message/callee regex, reason)
PRECONDITION = [
    (r"LocalSpanStack::exit_span$", "panic", r"assert_failed",
     "debug_assert_eq on span-line epochs: fails only when a LocalSpan is dropped while a later scope is still open"),
    (r"LocalSpanStack::unregister_and_collect$", "unwrap", r"Option::<T>::unwrap",
     "debug assertion reads the top scope: the stack is empty only if scopes were popped out of order"),
    (r"LocalSpanStack::unregister_and_collect$", "panic", r"assert_failed",
     "debug_assert_eq on epochs: fails only when a LocalCollector / LocalParentGuard is released while a later one is open"),
    (r"LocalSpanStack::with_properties$", "panic", r"current_span_line\(\)\.is_some\(\)",
     "a LocalSpan with a handle exists only while its scope is on the stack (in-order release)"),
    (r"SpanQueue::finish_span$", "panic", r"assert_failed",
     "debug_assert_eq on next_parent_id: fails only when local spans of one scope are dropped out of order"),
]

# Environment / user failures, listed by name.
ENVIRONMENT = [
    (r"global_collector::flush$", r"Result::<T, E>::unwrap$", r"thread::(builder::)?Builder::spawn",
     "OS refused to create the flush helper thread"),
    (r"global_collector::flush$", r"Result::<T, E>::unwrap$", r"JoinHandle::<T>::join",
     "the helper thread panicked, i.e. the user's Reporter::report panicked"),
    (r"GlobalCollector::start$", r"Result::<T, E>::unwrap$", r"thread::(builder::)?Builder::spawn",
     "OS refused to create the collector thread"),
]

EXCLUDE_ROOTS = re.compile(r"^fastrace::util::tree|^<fastrace::util::tree|^fastrace::collector::test_reporter|"
                           r"^<fastrace::collector::test_reporter|^<fastrace::collector::console_reporter|"
                           r" as core::fmt::(Debug|Display)>::fmt$|^fastrace_macro")
SCOPE_CRATES = ("fastrace", "fastrace_futures")


def classify(t):
    for rx, k in _PANICKY_RX:
        if rx.search(t["callee"]) or rx.search(t.get("decl", "")):
            return k
    return None


class Inventory:
    def __init__(self, ctx, facts, cfg_name="E"):
        self.ctx = ctx
        self.facts = facts
        self.cfg = cfg_name
        self.prov = Prov(facts)
        self.inv = Invokes(facts, self.prov)
        self.roots = sorted(p for p, fn in facts.fns.items()
                            if fn.crate in SCOPE_CRATES and fn.j.get("reachable") and not EXCLUDE_ROOTS.search(p))
        self.par = facts.reachable(self.roots)
        self.bodies = [facts.fns[p] for p in sorted(self.par) if p in facts.fns
                       and facts.fns[p].crate in SCOPE_CRATES and not EXCLUDE_ROOTS.search(p)]
        self._borrowers = None

    # ------------------------------------------------------------------ site listing
    def sites(self, bodies=None):
        out = []
        for fn in (bodies if bodies is not None else self.bodies):
            for b, blk in enumerate(fn.blocks):
                if blk["cleanup"]:
                    continue
                t = blk["term"]
                if t["k"] == "assert":
                    out.append((fn, b, "assert", t["msg"]))
                elif t["k"] == "call":
                    k = classify(t)
                    if k == "index" and len(t.get("arg_tys", [])) > 1 and t["arg_tys"][1] == "core::ops::range::RangeFull":
                        k = None          # `v[..]`: the full range cannot be out of bounds
                    if k:
                        msg = t["callee"]
                        if k == "panic" and t["args"] and t["args"][0]["k"] == "const":
                            msg += " " + t["args"][0].get("repr", "")
                        out.append((fn, b, k, msg))
        return out

    # ------------------------------------------------------------------ borrow discipline (R2 / R2b)
    def borrowers(self):
        """Local functions that may (transitively, incl. drop glue and closures) borrow the thread's span stack."""
        if self._borrowers is None:
            direct = set()
            for p, fn in self.facts.fns.items():
                for b in fn.calls_re(r"core::cell::RefCell::<T>::(borrow|borrow_mut|try_borrow|try_borrow_mut)$"):
                    if "LocalSpanStack" in fn.term(b)["arg_tys"][0]:
                        direct.add(p)
            cg = self.facts.callgraph()
            bor = set(direct)
            changed = True
            while changed:
                changed = False
                for p, edges in cg.items():
                    if p in bor:
                        continue
                    if any(c in bor for _, c, _ in edges):
                        bor.add(p)
                        changed = True
            self._borrowers = bor
        return self._borrowers

    def live_range(self, fn, b):
        """Blocks in which the RefMut produced by the borrow call at block b is live."""
        t = fn.term(b)
        g = t["dest"]["l"]
        rel = []
        for x, blk in enumerate(fn.blocks):
            tt = blk["term"]
            if tt["k"] == "drop" and tt["place"]["l"] == g and not tt["place"]["p"]:
                rel.append(x)
            if tt["k"] == "call" and re.search(r"(^|::)mem::drop$", tt["callee"]):
                for a in tt["args"]:
                    if a["k"] == "move" and root_local(fn, a)[0] == g:
                        rel.append(x)
        # the RefMut may be returned / moved out: then it is live to the end of the function
        if t["target"] is None:
            return set(), rel
        live = fn.reach([(b, t["target"])], avoid_blocks=rel)
        return live, rel

    def check_borrow_site(self, fn, b, rule, rid_user="R2", rid_nested="R2b"):
        ctx = self.ctx
        t = fn.term(b)
        if "LocalSpanStack" not in t["arg_tys"][0]:
            return False
        live, rel = self.live_range(fn, b)
        user = self.inv.user_sites(fn, live)
        # a callee instantiated with one of the caller's own type parameters runs that type's trait methods (IntoIterator,
        # Iterator::next, Into, Drop): caller-supplied code just like a closure
        tparams = [g for g in fn.j.get("generics", []) if re.fullmatch(r"[A-Z]\w*", g)]
        root_fn = self.facts.fns.get(fn.j.get("root", "")) if fn.kind == "Closure" else None
        if root_fn is not None:
            tparams += [g for g in root_fn.j.get("generics", []) if re.fullmatch(r"[A-Z]\w*", g)]
        # a parameter whose only capability is "convert me into text" (`N: Into<Cow<'static, str>>`, the named form of the
        # `name: impl Into<Cow<..>>` arguments) carries no lazy user code the way an iterator or a closure does
        preds = list(fn.j.get("predicates", [])) + (list(root_fn.j.get("predicates", [])) if root_fn is not None else [])
        BENIGN = re.compile(r"core::marker::Sized$|core::convert::Into<alloc::borrow::Cow<'\w+, str>>$|core::convert::AsRef<str>$|'\w+$")
        tparams = [g for g in tparams if any(pr.startswith(g + ": ") and not BENIGN.search(pr) for pr in preds)
                   or not any(pr.startswith(g + ": ") for pr in preds)]
        if tparams:
            rx = re.compile(r"(?<![\w:])(%s)(?![\w:])" % "|".join(map(re.escape, set(tparams))))
            for x in sorted(live):
                tt = fn.term(x)
                if tt["k"] == "call" and not fn.blocks[x]["cleanup"]:
                    hit = [ta for ta in tt.get("targs", []) if rx.search(ta) and not ta.startswith("{closure")]
                    if hit and not re.search(r"core::mem::drop$|ops::drop::Drop", tt["callee"]):
                        user = list(user) + [(x, "%s instantiated with the caller's type %s" % (tt["callee"].rsplit("::", 1)[-1], hit[0]))]
        bor = self.borrowers()
        nested = []
        for x in sorted(live):
            tt = fn.term(x)
            if tt["k"] == "call" and tt["callee"] in bor:
                nested.append((x, tt["callee"]))
            if tt["k"] == "drop":
                for g in tt["glue"]:
                    if g.split("|")[0] in bor:
                        nested.append((x, "drop glue " + g.split("|")[0]))
            for s in fn.blocks[x]["stmts"]:
                if s["k"] == "assign" and s["rv"]["k"] == "agg" and s["rv"].get("closure") in bor:
                    nested.append((x, "closure " + s["rv"]["closure"]))
        key = "borrow@bb%d" % b if len([x for x in fn.calls_re(r"RefCell::<T>::borrow(_mut)?$") if not fn.blocks[x]["cleanup"]]) > 1 else "borrow"
        ok_user = not user
        ctx.check(ok_user, rid_user, fn.path, fn.loc(b),
                  "no caller-supplied closure runs while the thread's span stack is mutably borrowed",
                  "live range %s contains no Fn*::call* on a type-parameter value" % sorted(live),
                  "user code under RefMut<LocalSpanStack>: %s -- a #[trace] function or a fastrace-aware logger called from "
                  "the closure re-borrows the stack: BorrowMutError" % "; ".join("bb%d %s" % u for u in user),
                  extra=key)
        ctx.check(not nested, rid_nested, fn.path, fn.loc(b),
                  "library code does not re-borrow the span stack under its own borrow",
                  "", "nested borrow reachable inside the live range: %s" % nested[:4], extra=key)
        res = self.inv.residual_sites(fn, live)
        return ok_user and not nested, res

    # ------------------------------------------------------------------ generic discharges
    def guard_unwrap(self, fn, b):
        """unwrap() dominated by the matching is_some/is_none/discriminant edge on the same place."""
        t = fn.term(b)
        src_root = root_local(fn, t["args"][0]) if t["args"] and t["args"][0]["k"] in ("copy", "move") else None
        recv = self.prov.of_operand(fn, t["args"][0])
        paths = {(o.kind, o.key, o.path) for o in recv}

        def same(o):
            return (o.kind, o.key, o.path) in paths
        edges = set()
        edges |= bool_cond_edges(fn, self.prov, lambda o: same(o) and any(
            v[0] == "call" and re.search(r"(Option::<T>::is_none|Result::<T, E>::is_err)$", v[1]) for v in o.via), False)
        edges |= bool_cond_edges(fn, self.prov, lambda o: same(o) and any(
            v[0] == "call" and re.search(r"(Option::<T>::is_some|Result::<T, E>::is_ok)$", v[1]) for v in o.via), True)
        if edges and fn.guarded([b], edges):
            return "guarded by is_some/is_none edge %s" % sorted((a, d) for a, d, _ in edges)
        return None

    def guard_index(self, fn, b):
        t = fn.term(b)
        if len(t["args"]) < 2:
            return None
        idx = t["args"][1]
        recv = self.prov.of_operand(fn, t["args"][0])
        keys = {(o.kind, o.key, o.path) for o in recv}
        if idx["k"] == "const" and "v" in idx:
            k = idx["v"]

            def lencmp(o):
                return (o.kind, o.key, o.path) in keys and any(v[0] == "call" and re.search(r"::len$", v[1]) for v in o.via) \
                    and any(v[0] == "binop" and v[1] == "Eq" and v[2] is not None and v[2] > k for v in o.via)
            edges = bool_cond_edges(fn, self.prov, lencmp, True)

            def nonempty(o):
                return (o.kind, o.key, o.path) in keys and any(v[0] == "call" and re.search(r"::is_empty$", v[1]) for v in o.via)
            if k == 0:
                edges |= bool_cond_edges(fn, self.prov, nonempty, False)
            if edges and fn.guarded([b], edges):
                return "constant index %d guarded by a length test %s" % (k, sorted((a, d) for a, d, _ in edges))
        return None

    def const_assert(self, fn, b):
        t = fn.term(b)
        c = t["cond"]
        if c["k"] == "const":
            return "constant condition"
        sd = fn.single_def(c["l"]) if c["k"] in ("copy", "move") and not c["p"] else None
        if sd and sd[1] != "term" and sd[2]["k"] == "assign":
            rv = sd[2]["rv"]
            if rv["k"] == "binop":
                a, bb = const_value(fn, rv["a"]), const_value(fn, rv["b"])
                if a is not None and bb is not None:
                    val = {"Lt": a < bb, "Le": a <= bb, "Gt": a > bb, "Ge": a >= bb, "Eq": a == bb, "Ne": a != bb}.get(rv["op"])
                    if val is not None and val == t["expected"]:
                        return "condition %s(%d, %d) folds to %s" % (rv["op"], a, bb, val)
        return None

    def full_range(self, fn, b):
        t = fn.term(b)
        if t["callee"].endswith("::drain") and len(t["arg_tys"]) > 1 and "RangeFull" in t["arg_tys"][1]:
            return "drain(..) over the full range never panics"
        if t["callee"].endswith("::insert") and len(t["args"]) > 2 and t["args"][1]["k"] == "const" and t["args"][1].get("v") == 0:
            return "insert(0, _): index 0 is never past the end"
        return None


# ---------------------------------------------------------------------------------------------- sub-rules

def queue_handle_invariant(facts, prov):
    """SpanQueue.span_queue[handle.index]: handles are only built in start_span with index = len before the push,
    and the vector is never shrunk. -> (ok, detail)"""
    SQ = "fastrace::local::span_queue::SpanQueue"
    H = "fastrace::local::span_queue::SpanHandle"
    builders = []
    for g in facts.fns.values():
        for b, blk in enumerate(g.blocks):
            for s in blk["stmts"]:
                if s["k"] == "assign" and s["rv"]["k"] == "agg" and s["rv"].get("adt") == H:
                    builders.append((g, b, s))
    if not builders:
        return False, "no construction of SpanHandle found"
    for g, b, s in builders:
        if not g.path.startswith(SQ + "::"):
            return False, "SpanHandle constructed outside SpanQueue: %s" % g.path
        src = prov.of_operand(g, s["rv"]["ops"][0])
        from_len = any(v[0] == "call" and re.search(r"Vec::<T, A>::len$", v[1]) for o in src for v in o.via) and \
            has_origin(src, kind="param", key=1, path_suffix=(".span_queue",))
        if not from_len:
            return False, "SpanHandle.index does not originate from span_queue.len(): %s" % origin_strs(src)
        # a push onto span_queue follows on every path to the return of Some(handle)
        pushes = [x for x in g.calls_re(r"alloc::vec::Vec::<T, A>::push$", cleanup=False)
                  if has_origin(prov.of_operand(g, g.term(x)["args"][0]), kind="param", key=1, path_suffix=(".span_queue",))]
        lens = [v[2] for o in src for v in o.via if v[0] == "call" and re.search(r"Vec::<T, A>::len$", v[1])]
        if not pushes or not all(g.must_pass([(l, g.term(l)["target"])], pushes)[0] for l in lens):
            return False, "no push onto span_queue after the index was taken"
    # no shrinking operation on the field anywhere
    SHRINK = r"alloc::vec::Vec::<T, A>::(pop|remove|truncate|clear|drain|swap_remove|split_off|retain|retain_mut|dedup\w*)$"
    for g in facts.fns.values():
        if g.crate != "fastrace":
            continue
        for x in g.calls_re(SHRINK, cleanup=False):
            src = prov.of_operand(g, g.term(x)["args"][0])
            if has_origin(src, path_suffix=(".span_queue",)) and "RawSpan" in g.term(x)["arg_tys"][0]:
                return False, "shrinking operation %s on span_queue in %s" % (g.term(x)["callee"], g.path)
    # use of a handle on another scope is excluded by the epoch comparison in SpanLine
    for name in ("finish_span", "with_properties"):
        g = facts.fn("fastrace::local::local_span_line::SpanLine::" + name)
        if g is None:
            return False, "SpanLine::%s not found" % name
        calls = g.calls_re(r"SpanQueue::%s$" % name, cleanup=False)

        edges = equal_edges(g, prov, lambda o: bool(o.path) and o.path[-1] in (".epoch", ".span_line_epoch"))
        if not calls or not edges or not g.guarded(calls, edges):
            return False, "SpanLine::%s does not compare epochs before using the handle" % name
    return True, "handles built only inside SpanQueue with index = len before a push, span_queue never shrinks, epochs compared"


def epoch_guarded_callers(facts, prov, callee_path):
    """Every call site of callee_path is guarded by an epoch-equality test (directly or through a helper predicate)."""
    sites = []
    for g in facts.fns.values():
        for b in g.calls(lambda t: t["callee"] == callee_path):
            if g.blocks[b]["cleanup"]:
                continue

            edges = equal_edges(g, prov, lambda o: bool(o.path) and o.path[-1] in (".epoch", ".span_line_epoch"))
            sites.append((g, b, bool(edges) and g.guarded([b], edges)))
    return sites


def slice_from_len(facts, prov, fn, b):
    """records[len0..] where len0 = records.len() taken earlier and records only grows in between."""
    t = fn.term(b)
    if "RangeFrom" not in t["arg_tys"][1]:
        return None
    recv_root = root_local(fn, t["args"][0])[0]
    src = prov.of_operand(fn, t["args"][1])
    lens = [v[2] for o in src for v in o.via if v[0] == "call" and re.search(r"Vec::<T, A>::len$", v[1])]
    if not lens:
        return None
    for l in lens:
        if root_local(fn, fn.term(l)["args"][0])[0] != recv_root:
            return None
    SHRINK = r"alloc::vec::Vec::<T, A>::(pop|remove|truncate|clear|drain|swap_remove|split_off|retain|retain_mut)$"
    scope = {fn.path} | set(facts.reachable([fn.path]))
    for p in scope:
        g = facts.fns.get(p)
        if g is None:
            continue
        for x in g.calls_re(SHRINK, cleanup=False):
            if "SpanRecord" in g.term(x)["arg_tys"][0]:
                return None
    return "start bound is the vector's own earlier len() and nothing reachable shrinks Vec<SpanRecord>"
