"""Fact model and rule primitives (P1-P12 of DESIGN.md section 3.2).

Everything here reads the JSON written by the mirfacts driver; nothing is executed.
"""
import glob
import json
import os
import re
from collections import defaultdict


# --------------------------------------------------------------------------- places / operands

def place_str(p):
    s = "_%d" % p["l"]
    for e in p["p"]:
        s = "(*%s)" % s if e == "*" else s + e
    return s


def fields_of(proj):
    """Named components of a projection, dropping derefs and Option/Result payload selectors."""
    out = []
    skip0 = False
    for e in proj:
        if e == "*":
            continue
        if e in ("@Some", "@Ok", "@Err", "@Ready", "@Continue", "@Break"):
            skip0 = True
            continue
        if skip0 and e == ".0":
            skip0 = False
            continue
        skip0 = False
        out.append(e)
    return tuple(out)


class Origin(tuple):
    """(kind, key, path, via) -- kind in param|upvar|const|static|call|agg|unknown."""
    __slots__ = ()

    def __new__(cls, kind, key, path=(), via=()):
        return tuple.__new__(cls, (kind, key, tuple(path), tuple(via)))

    kind = property(lambda s: s[0])
    key = property(lambda s: s[1])
    path = property(lambda s: s[2])
    via = property(lambda s: s[3])

    def short(self):
        p = "".join(self.path)
        return "%s:%s%s" % (self.kind, self.key, p)


# --------------------------------------------------------------------------- functions

class Fn:
    def __init__(self, j, crate):
        self.j = j
        self.crate = crate
        self.path = j["path"]
        self.kind = j["kind"]
        self.blocks = j["blocks"]
        self.locals = j["locals"]
        self.arg_count = j["arg_count"]
        self.span = j["span"]
        self.names = {}
        for n in j["names"]:
            self.names.setdefault(place_str(n["place"]), n["name"])
        self._succ = None
        self._pred = None
        self._defs = None
        self._dom = {}
        self._pruned = None

    def __repr__(self):
        return "Fn(%s)" % self.path

    # ---- naming
    def local_name(self, l):
        return self.names.get("_%d" % l)

    def local_by_name(self, name):
        for k, v in self.names.items():
            if v == name and re.fullmatch(r"_\d+", k):
                return int(k[1:])
        return None

    def term(self, b):
        return self.blocks[b]["term"]

    def loc(self, b):
        return self.blocks[b]["term"].get("span", self.span)

    # ---- CFG
    def edges(self, b, cleanup=False):
        """[(dst, label)] label: ('sw', v) | ('sw', None)=otherwise | 'n' | 'u' (unwind)"""
        t = self.blocks[b]["term"]
        k = t["k"]
        out = []
        if k == "goto":
            out.append((t["target"], "n"))
        elif k == "switch":
            for v, d in t["targets"]:
                out.append((d, ("sw", v)))
            out.append((t["otherwise"], ("sw", None)))
        elif k in ("drop", "call", "assert"):
            if t.get("target") is not None:
                out.append((t["target"], "n"))
            if cleanup and isinstance(t.get("unwind"), int):
                out.append((t["unwind"], "u"))
        elif k == "yield":
            out.append((t["target"], "n"))
            if cleanup and t.get("drop") is not None:
                out.append((t["drop"], "u"))
        return out

    # ---- drop flags (P11): path-sensitive over boolean locals that are only ever assigned constants
    def _flag_setup(self):
        if self._pruned is not None:
            return
        self._pruned = True
        self._vt = None
        if getattr(self, "inlined", False) or not os.environ.get("VERIF_VT_INLINED_ONLY"):
            self._vt_setup()
            return
        consts = {}
        bad = set()
        for bi, blk in enumerate(self.blocks):
            for s in blk["stmts"]:
                l = s["lhs"]
                if l["p"]:
                    continue
                if s["k"] == "assign" and s["rv"]["k"] == "use" and s["rv"]["op"]["k"] == "const" \
                        and s["rv"]["op"].get("ty") == "bool" and "v" in s["rv"]["op"]:
                    consts.setdefault(l["l"], set()).add(s["rv"]["op"]["v"])
                else:
                    bad.add(l["l"])
            t = blk["term"]
            if t["k"] == "call" and "dest" in t and not t["dest"]["p"]:
                bad.add(t["dest"]["l"])
        for blk in self.blocks:
            for s in blk["stmts"]:
                if s["k"] == "assign" and s["rv"]["k"] in ("ref", "rawptr"):
                    bad.add(s["rv"]["place"]["l"])
        # only flags that are actually switched on matter
        switched = set()
        for blk in self.blocks:
            t = blk["term"]
            if t["k"] == "switch" and t["discr"]["k"] in ("copy", "move") and not t["discr"]["p"]:
                switched.add(t["discr"]["l"])
        self._flags = sorted(l for l in consts if l not in bad and self.locals[l] == "bool"
                             and l > self.arg_count and l in switched)
        self._fidx = {f: i for i, f in enumerate(self._flags)}
        # reachable (block, valuation) pairs from the entry, over all edges
        init = tuple([None] * len(self._flags))
        self._bstates = defaultdict(set)
        self._feas = defaultdict(set)
        work = [(0, init)]
        self._bstates[0].add(init)
        while work:
            b, st = work.pop()
            for (d, lab, st2) in self._step(b, st, True):
                self._feas[b].add((d, lab))
                if st2 not in self._bstates[d]:
                    self._bstates[d].add(st2)
                    work.append((d, st2))

    # ---- inlined views: the value a helper returned is known on each path (Ok / Err / Some / None / true / false);
    #      the caller's test of it must not be taken both ways. Same exploration as the drop flags, over more values.
    _VT_BRANCH = re.compile(r"ops::try_trait::Try>?::branch$")
    _VT_PRED = re.compile(r"(result::Result::<T, E>::(is_ok|is_err)|option::Option::<T>::(is_some|is_none))$")
    _VT_SAME = re.compile(r"(result::Result::<T, E>|option::Option::<T>)::(map|map_err|as_ref|as_mut|cloned|copied|as_deref|inspect|inspect_err)$")
    _VT_OK = re.compile(r"result::Result::<T, E>::(ok|err)$|option::Option::<T>::(ok_or|ok_or_else)$")

    def _vt_setup(self):
        nloc = len(self.locals)
        bad = set()
        for blk in self.blocks:
            for s in blk["stmts"]:
                if s["k"] != "assign":
                    continue
                if s["lhs"]["p"]:
                    bad.add(s["lhs"]["l"])
                rv = s["rv"]
                if rv["k"] == "rawptr" or (rv["k"] == "ref" and rv.get("mut") and "*" not in rv["place"]["p"]):
                    bad.add(rv["place"]["l"])
            t = blk["term"]
            if t["k"] == "call" and "dest" in t and t["dest"]["p"]:
                bad.add(t["dest"]["l"])
        # relevant = feeds a switch through copies / discriminant reads / shared refs / modelled calls
        rel = set()
        for blk in self.blocks:
            t = blk["term"]
            if t["k"] == "switch" and t["discr"]["k"] in ("copy", "move") and not t["discr"]["p"]:
                rel.add(t["discr"]["l"])
        changed = True
        while changed:
            changed = False
            for blk in self.blocks:
                for s in blk["stmts"]:
                    if s["k"] == "assign" and not s["lhs"]["p"] and s["lhs"]["l"] in rel:
                        rv = s["rv"]
                        src = None
                        if rv["k"] == "use" and rv["op"]["k"] in ("copy", "move") and not rv["op"]["p"]:
                            src = rv["op"]["l"]
                        elif rv["k"] == "use" and rv["op"]["k"] in ("copy", "move") and len(rv["op"]["p"]) == 2 \
                                and str(rv["op"]["p"][0]).startswith("@") and rv["op"]["p"][1] == ".0":
                            src = rv["op"]["l"]            # the payload of a matched wrapper: `(_x as Ok).0`
                        elif rv["k"] in ("discr", "ref") and not rv["place"]["p"]:
                            src = rv["place"]["l"]
                        elif rv["k"] == "agg" and rv.get("variant") and len(rv.get("ops", [])) == 1 and rv["ops"][0]["k"] in ("copy", "move") \
                                and not rv["ops"][0]["p"]:
                            src = rv["ops"][0]["l"]        # `Ok(inner)`: the wrapper's payload may carry a variant of its own
                        if src is not None and src not in rel:
                            rel.add(src)
                            changed = True
                t = blk["term"]
                if t["k"] == "call" and "dest" in t and not t["dest"]["p"] and t["dest"]["l"] in rel and t["args"]:
                    c = t["callee"]
                    if self._VT_BRANCH.search(c) or self._VT_PRED.search(c) or self._VT_SAME.search(c) or self._VT_OK.search(c):
                        a = t["args"][0]
                        if a["k"] in ("copy", "move") and not a["p"] and a["l"] not in rel:
                            rel.add(a["l"])
                            changed = True
        self._flags = sorted(l for l in rel if l not in bad and l > self.arg_count and l < nloc)
        self._fidx = {f: i for i, f in enumerate(self._flags)}
        self._vt = True
        init = tuple([None] * len(self._flags))
        self._bstates = defaultdict(set)
        self._feas = defaultdict(set)
        work = [(0, init)]
        self._bstates[0].add(init)
        n = 0
        while work:
            b, st = work.pop()
            n += 1
            if n > 200000:     # give up precision, never soundness: fall back to all edges
                self._flags, self._fidx, self._vt = [], {}, None
                self._bstates = defaultdict(set)
                self._feas = defaultdict(set)
                init = ()
                work = [(0, init)]
                self._bstates[0].add(init)
                n = -10**9
                continue
            for (d, lab, st2) in self._step(b, st, True):
                self._feas[b].add((d, lab))
                if st2 not in self._bstates[d]:
                    self._bstates[d].add(st2)
                    work.append((d, st2))

    def _vt_val(self, cur, op):
        if op["k"] == "const":
            return int(op["v"]) if isinstance(op.get("v"), (int, bool)) else None
        if op["k"] in ("copy", "move") and not op["p"] and op["l"] in self._fidx:
            v = cur[self._fidx[op["l"]]]
            if isinstance(v, tuple) and v[0] == "R":
                return cur[self._fidx[v[1]]] if v[1] in self._fidx else None
            return v
        return None

    def _vt_step_state(self, b, st):
        cur = list(st)
        fidx = self._fidx
        for s in self.blocks[b]["stmts"]:
            if s["k"] != "assign":
                continue
            l = s["lhs"]
            if l["p"] or l["l"] not in fidx:
                continue
            rv = s["rv"]
            val = None
            if rv["k"] == "use":
                o = rv["op"]
                if o["k"] == "const":
                    val = int(o["v"]) if isinstance(o.get("v"), (int, bool)) else None
                elif not o["p"] and o["l"] in fidx:
                    val = cur[fidx[o["l"]]]
                elif len(o["p"]) == 2 and str(o["p"][0]).startswith("@") and o["p"][1] == ".0" and o["l"] in fidx:
                    w = cur[fidx[o["l"]]]          # payload of a wrapper whose variant (and payload variant) is known
                    if isinstance(w, tuple) and w[0] == "V" and len(w) == 3 and w[1] == o["p"][0][1:]:
                        val = w[2]
            elif rv["k"] == "agg" and rv.get("variant") and "adt" in rv:
                inner = None
                if len(rv["ops"]) == 1 and rv["ops"][0]["k"] in ("copy", "move") and not rv["ops"][0]["p"] and rv["ops"][0]["l"] in fidx:
                    inner = cur[fidx[rv["ops"][0]["l"]]]
                val = ("V", rv["variant"], inner) if inner is not None else ("V", rv["variant"])
            elif rv["k"] == "discr" and not rv["place"]["p"] and rv["place"]["l"] in fidx:
                v = cur[fidx[rv["place"]["l"]]]
                if isinstance(v, tuple) and v[0] == "V":
                    for idx, name in rv["variants"]:
                        if name == v[1]:
                            val = idx
            elif rv["k"] == "ref" and not rv.get("mut") and not rv["place"]["p"] and rv["place"]["l"] in fidx:
                val = ("R", rv["place"]["l"])
            cur[fidx[l["l"]]] = val
        t = self.blocks[b]["term"]
        if t["k"] == "call" and "dest" in t and not t["dest"]["p"] and t["dest"]["l"] in fidx:
            val = None
            c = t["callee"]
            a = self._vt_val(cur, t["args"][0]) if t["args"] else None
            tag = a[1] if isinstance(a, tuple) and a[0] == "V" else None
            if tag is not None:
                if self._VT_BRANCH.search(c):
                    val = ("V", "Continue") if tag in ("Ok", "Some", "Continue") else (("V", "Break") if tag in ("Err", "None", "Break") else None)
                    if val and val[1] == "Continue" and len(a) == 3:
                        val = ("V", "Continue", a[2])
                elif self._VT_PRED.search(c):
                    name = c.rsplit("::", 1)[1]
                    pos = tag in ("Ok", "Some")
                    val = int(pos if name in ("is_ok", "is_some") else not pos)
                elif self._VT_SAME.search(c):
                    val = ("V", tag)
                elif self._VT_OK.search(c):
                    name = c.rsplit("::", 1)[1]
                    if name == "ok":
                        val = ("V", "Some" if tag == "Ok" else "None")
                    elif name == "err":
                        val = ("V", "None" if tag == "Ok" else "Some")
                    else:
                        val = ("V", "Ok" if tag == "Some" else "Err")
            m = re.match(r"<core::(option::Option|result::Result)<.*> as core::ops::try_trait::FromResidual<", c)
            if m and c.endswith("::from_residual"):
                val = ("V", "None" if m.group(1).startswith("option") else "Err")   # what `?` returns early is the failure variant
            cur[fidx[t["dest"]["l"]]] = val
        return tuple(cur)

    def _step(self, b, st, cleanup):
        """Feasible (dst, label, state') from block b entered with flag valuation st."""
        if self._vt:
            st2 = self._vt_step_state(b, st)
            t = self.blocks[b]["term"]
            val = None
            if t["k"] == "switch" and t["discr"]["k"] in ("copy", "move") and not t["discr"]["p"] and t["discr"]["l"] in self._fidx:
                val = st2[self._fidx[t["discr"]["l"]]]
                if not isinstance(val, int):
                    val = None
            listed = [v for v, _ in t["targets"]] if t["k"] == "switch" else []
            out = []
            for (d, lab) in self.edges(b, cleanup):
                if val is not None and t["k"] == "switch":
                    ok = (val not in listed) if lab[1] is None else (lab[1] == val)
                    if not ok:
                        continue
                out.append((d, lab, st2))
            return out
        if self._flags:
            cur = list(st)
            for s in self.blocks[b]["stmts"]:
                l = s["lhs"]
                if not l["p"] and l["l"] in self._fidx and s["k"] == "assign":
                    cur[self._fidx[l["l"]]] = s["rv"]["op"]["v"]
            st2 = tuple(cur)
        else:
            st2 = st
        t = self.blocks[b]["term"]
        out = []
        val = None
        if t["k"] == "switch" and t["discr"]["k"] in ("copy", "move") and not t["discr"]["p"] \
                and t["discr"]["l"] in self._fidx:
            val = st2[self._fidx[t["discr"]["l"]]]
        listed = [v for v, _ in t["targets"]] if t["k"] == "switch" else []
        for (d, lab) in self.edges(b, cleanup):
            if val in (0, 1):
                ok = (val not in listed) if lab[1] is None else (lab[1] == val)
                if not ok:
                    continue
            out.append((d, lab, st2))
        return out

    def feasible_edges(self, b, cleanup=False):
        """edges() minus the ones no drop-flag valuation reachable from the entry makes feasible."""
        self._flag_setup()
        f = self._feas.get(b, ())
        return [(d, l) for (d, l) in self.edges(b, cleanup) if (d, l) in f]

    def succs(self, b, cleanup=False):
        return [d for d, _ in self.feasible_edges(b, cleanup)]

    def preds_map(self, cleanup=False):
        pm = defaultdict(list)
        for b in range(len(self.blocks)):
            for d in self.succs(b, cleanup):
                pm[d].append(b)
        return pm

    def reach(self, starts, avoid_blocks=(), avoid_edges=(), cleanup=False):
        """Blocks reachable from `starts` (inclusive) without entering avoid_blocks / crossing avoid_edges,
        following only paths that are feasible for the drop flags (each start is entered with every flag
        valuation it can have on some path from the function entry).
        avoid_edges: set of (src, dst, label) or (src, dst)."""
        self._flag_setup()
        avoid_blocks = set(avoid_blocks)
        avoid_edges = set(avoid_edges)
        seen = set()
        work = []
        for s in starts:
            if isinstance(s, tuple):
                # an edge (src, dst[, label]): enter dst with the valuations src leaves it with
                src, dst = s[0], s[1]
                for st in self._bstates.get(src, ()):
                    for d, lab, st2 in self._step(src, st, True):
                        if d == dst and (len(s) < 3 or s[2] == lab) and d not in avoid_blocks:
                            work.append((d, st2))
                continue
            if s in avoid_blocks:
                continue
            for st in self._bstates.get(s, ()):
                work.append((s, st))
        while work:
            node = work.pop()
            if node in seen:
                continue
            seen.add(node)
            b, st = node
            for d, lab, st2 in self._step(b, st, cleanup):
                if d in avoid_blocks or (b, d, lab) in avoid_edges or (b, d) in avoid_edges:
                    continue
                if (d, st2) not in seen:
                    work.append((d, st2))
        return {b for b, _ in seen}

    def returns(self):
        return [b for b, blk in enumerate(self.blocks) if blk["term"]["k"] == "return"]

    def exits(self, cleanup=False):
        ks = ("return",) + (("resume", "abort") if cleanup else ())
        return [b for b, blk in enumerate(self.blocks) if blk["term"]["k"] in ks]

    def dominators(self, cleanup=False):
        if cleanup in self._dom:
            return self._dom[cleanup]
        n = len(self.blocks)
        reach = self.reach([0], cleanup=cleanup)
        pm = self.preds_map(cleanup)
        dom = {b: set(reach) for b in reach}
        dom[0] = {0}
        changed = True
        order = sorted(reach)
        while changed:
            changed = False
            for b in order:
                if b == 0:
                    continue
                ps = [p for p in pm[b] if p in reach]
                new = set(reach)
                for p in ps:
                    new &= dom[p]
                new.add(b)
                if new != dom[b]:
                    dom[b] = new
                    changed = True
        self._dom[cleanup] = dom
        return dom

    def dominates(self, a, b, cleanup=False):
        if getattr(self, "inlined", False):
            # on an inlined view the value a helper returned decides which continuation is feasible: ask the
            # state-sensitive question directly (every feasible path from the entry to b passes a)
            if a == b:
                return b in self.reach([0], cleanup=cleanup)
            key = ("dom", a, cleanup)
            r = self._dom.get(key)
            if r is None:
                r = self._dom[key] = self.reach([0], avoid_blocks=[a], cleanup=cleanup)
            return b not in r and b in self.reach([0], cleanup=cleanup)
        d = self.dominators(cleanup)
        return b in d and a in d[b]

    def must_pass(self, starts, through, cleanup=False, exits=None, avoid_edges=()):
        """No path from `starts` to an exit avoids every block in `through`.
        Returns (ok, witness_exit)."""
        ex = set(self.exits(cleanup) if exits is None else exits)
        r = self.reach(starts, avoid_blocks=through, cleanup=cleanup, avoid_edges=avoid_edges)
        bad = sorted(r & ex)
        return (not bad, bad[0] if bad else None)

    def guarded(self, target_blocks, cond_edges, cleanup=False):
        """Every entry->target path crosses one of cond_edges (set of (src,dst,label))."""
        r = self.reach([0], avoid_edges=cond_edges, cleanup=cleanup)
        return not (r & set(target_blocks))

    def natural_loop(self, header, cleanup=False):
        """Blocks of the natural loop(s) with the given header (back edges t->header with header dom t)."""
        pm = self.preds_map(cleanup)
        body = {header}
        work = [t for t in pm.get(header, []) if self.dominates(header, t, cleanup)]
        while work:
            b = work.pop()
            if b in body:
                continue
            body.add(b)
            work.extend(pm.get(b, []))
        return body

    def on_cycle(self, b, cleanup=False):
        for d in self.succs(b, cleanup):
            if b in self.reach([d], cleanup=cleanup):
                return True
        return False

    # ---- calls
    def calls(self, pred=None):
        out = []
        for b, blk in enumerate(self.blocks):
            t = blk["term"]
            if t["k"] == "call" and (pred is None or pred(t)):
                out.append(b)
        return out

    def calls_re(self, regex, cleanup=True):
        rx = re.compile(regex)
        return [b for b in self.calls(lambda t: rx.search(t["callee"]) or rx.search(t.get("decl", "")))
                if cleanup or not self.blocks[b]["cleanup"]]

    def drops(self, pred=None):
        out = []
        for b, blk in enumerate(self.blocks):
            t = blk["term"]
            if t["k"] == "drop" and (pred is None or pred(t)):
                out.append(b)
        return out

    # ---- definitions
    def defs(self, local):
        """All definitions of a local: [(block, stmt_index | 'term', kind, payload)]"""
        if self._defs is None:
            self._defs = defaultdict(list)
            for b, blk in enumerate(self.blocks):
                for i, s in enumerate(blk["stmts"]):
                    self._defs[s["lhs"]["l"]].append((b, i, s))
                t = blk["term"]
                if t["k"] == "call" and "dest" in t:
                    self._defs[t["dest"]["l"]].append((b, "term", t))
        return self._defs[local]

    def single_def(self, local, whole=True):
        ds = [d for d in self.defs(local) if not whole or not (d[2].get("lhs") or d[2].get("dest"))["p"]]
        return ds[0] if len(ds) == 1 else None

    def switch_info(self, b):
        """Describe what the SwitchInt in block b tests.
        -> dict(kind='discr', place, ty, variants{val:name}) | dict(kind='bool', def=...) | dict(kind='int', ...)"""
        t = self.blocks[b]["term"]
        if t["k"] != "switch":
            return None
        d = t["discr"]
        info = {"block": b, "neg": False, "discr": d, "discr_ty": t["discr_ty"]}
        if d["k"] == "const":
            info["kind"] = "const"
            return info
        cur = d
        for _ in range(6):
            if cur["p"]:
                info.update(kind="place", place=cur)
                return info
            sd = self.single_def(cur["l"])
            if sd is None:
                info.update(kind="place", place=cur)
                return info
            blk, i, s = sd
            if i == "term":
                info.update(kind="call", call=s, call_block=blk)
                return info
            rv = s["rv"] if s["k"] == "assign" else None
            if rv is None:
                break
            if rv["k"] == "discr":
                info.update(kind="discr", place=rv["place"], ty=rv["ty"],
                            variants={v: n for v, n in rv["variants"]})
                return info
            if rv["k"] == "unop" and rv["op"] == "Not" and rv["a"]["k"] in ("copy", "move"):
                info["neg"] = not info["neg"]
                cur = rv["a"]
                continue
            if rv["k"] == "use" and rv["op"]["k"] in ("copy", "move"):
                cur = rv["op"]
                continue
            if rv["k"] == "binop":
                info.update(kind="binop", op=rv["op"], a=rv["a"], b=rv["b"])
                return info
            info.update(kind="rv", rv=rv)
            return info
        info.update(kind="unknown")
        return info

    def switch_edges(self, b, want):
        """Edges of switch b taken when the tested boolean is `want` (True/False), honouring negation."""
        info = self.switch_info(b)
        t = self.blocks[b]["term"]
        out = []
        w = want if not info["neg"] else (not want)
        for (d, lab) in self.edges(b):
            v = lab[1]
            listed = [x for x, _ in t["targets"]]
            if v is None:
                # otherwise: the values not listed
                truth = None
                if listed == [0]:
                    truth = True
                elif listed == [1]:
                    truth = False
            else:
                truth = bool(v)
            if truth is not None and truth == w:
                out.append((b, d, lab))
        return out

    def variant_edges(self, b, names):
        """Edges of a discriminant switch taken for the given variant names."""
        info = self.switch_info(b)
        if not info or info.get("kind") != "discr":
            return []
        t = self.blocks[b]["term"]
        listed = {v for v, _ in t["targets"]}
        if set(info["variants"].values()) == {"Continue", "Break"}:
            # the switch tests `opt?` / `res?`: Continue is the Some / Ok case, Break the None / Err case
            alias = {"Some": "Continue", "Ok": "Continue", "None": "Break", "Err": "Break"}
            names = [alias.get(n, n) for n in names]
        out = []
        for (d, lab) in self.edges(b):
            v = lab[1]
            if v is None:
                rest = {n for val, n in info["variants"].items() if val not in listed}
                if rest and rest <= set(names):
                    out.append((b, d, lab))
            elif info["variants"].get(v) in names:
                out.append((b, d, lab))
        return out


# --------------------------------------------------------------------------- fact base

class Facts:
    def __init__(self, facts_dir, info=None):
        self.dir = facts_dir
        self.info = info or {}
        self.crates = {}
        self.fns = {}
        self.adts = {}
        self.statics = {}
        self.consts = {}
        self.impls = []
        self.formats = []
        self.meta = {}
        files = sorted(glob.glob(os.path.join(facts_dir, "*.json")))
        for f in files:
            with open(f) as fh:
                d = json.load(fh)
            m = d["meta"]
            if m["is_test"]:
                continue
            crate = m["crate"]
            if crate in self.crates:
                # proc-macro crates are compiled for host and for check; identical content
                if m["n_fns"] <= self.meta[crate]["n_fns"]:
                    continue
            self.crates[crate] = d
            self.meta[crate] = m
        self.renamed = {}
        if not os.environ.get("VERIF_NO_NORMALISE"):
            for crate in list(self.crates):
                self.crates[crate] = self._resolve_renames(crate, self.crates[crate])
        for crate, d in self.crates.items():
            for fj in d["fns"]:
                fn = Fn(fj, crate)
                if fn.path in self.fns:
                    # pin-project etc. may generate duplicate names under `_`; keep both
                    k = 2
                    while "%s#%d" % (fn.path, k) in self.fns:
                        k += 1
                    self.fns["%s#%d" % (fn.path, k)] = fn
                else:
                    self.fns[fn.path] = fn
            for a in d["adts"]:
                self.adts[a["path"]] = a
            for s in d["statics"]:
                self.statics[s["path"]] = s
            for c in d["consts"]:
                self.consts[c["path"]] = c
            for i in d["impls"]:
                i = dict(i)
                i["crate"] = crate
                self.impls.append(i)
            for fm in d["formats"]:
                fm = dict(fm)
                fm["crate"] = crate
                self.formats.append(fm)
        self._cg = None
        self._summ = {}
        self.absorbed = {}
        if not os.environ.get("VERIF_NO_NORMALISE"):
            self.normalise()

    # ---- renamed private functions: same place, same signature, new name
    def _resolve_renames(self, crate, d):
        """A function of the confirmed tree that is gone, while exactly one unknown non-public function with the same
        signature sits in the same module / impl, has been renamed: it is given its old name back (in its definition, in
        its closures and at every call site) so that rules anchored on the name keep working."""
        kp = os.path.join(os.path.dirname(os.path.abspath(__file__)), "known_fns.json")
        if not os.path.exists(kp):
            return d
        with open(kp) as fh:
            allk = json.load(fh)
        d = self._resolve_item_moves(crate, d, (allk.get("__adts__") or {}).get(crate) or {}, (allk.get("__statics__") or {}).get(crate) or {})
        d = self._resolve_variant_renames(d, (allk.get("__enums__") or {}).get(crate) or {})
        d = self._resolve_field_renames(crate, d, (allk.get("__adts__") or {}).get(crate) or {})
        known = allk.get(crate)
        if not isinstance(known, dict):
            return d
        cur = {}
        for fj in d["fns"]:
            if fj["kind"] != "Closure":
                cur[fj["path"]] = fj
        missing = [k for k in known if k not in cur]
        unknown = [p for p, fj in cur.items() if p not in known and not fj.get("exported") and not (fj.get("pub") and fj.get("reachable"))]
        if not missing or not unknown:
            return d

        def sig(fj):
            return "(%s) -> %s" % (", ".join(fj.get("inputs", [])), fj.get("output", ""))
        pairs = {}
        taken = set()
        for k in missing:
            par = k.rsplit("::", 1)[0]
            c = [u for u in unknown if u.rsplit("::", 1)[0] == par and sig(cur[u]) == known[k] and not (u.startswith("<") and " as " in u.split(">::")[0])]
            if len(c) == 1 and c[0] not in taken and len([m for m in missing if m.rsplit("::", 1)[0] == par and known[m] == known[k]]) == 1:
                pairs[c[0]] = k
                taken.add(c[0])
        # moved to another module: same last name segment and signature, anywhere in the crate
        for k in missing:
            if k in pairs.values():
                continue
            last = k.rsplit("::", 1)[1]
            c = [u for u in unknown if u not in taken and u.rsplit("::", 1)[1] == last and sig(cur[u]) == known[k]
                 and not (u.startswith("<") and " as " in u.split(">::")[0])]
            if len(c) == 1:
                pairs[c[0]] = k
                taken.add(c[0])
        if not pairs:
            return d
        text = json.dumps(d)
        for u, k in pairs.items():
            ue, ke = json.dumps(u)[1:-1], json.dumps(k)[1:-1]
            text = text.replace('"%s"' % ue, '"%s"' % ke).replace(ue + "::{closure#", ke + "::{closure#")
            self.renamed[k] = u
        return json.loads(text)

    def _resolve_item_moves(self, crate, d, known_adts, known_statics):
        """Statics and private types of the confirmed tree that are gone while exactly one new item of the same type /
        the same field types exists: moved to another module or renamed. They get their old path back."""
        text = None
        cur_st = {st["path"]: st for st in d["statics"]}
        for k, ty in known_statics.items():
            if k in cur_st:
                continue
            c = [p for p, st in cur_st.items() if p not in known_statics and st["ty"] == ty]
            same_name = [p for p in c if p.rsplit("::", 1)[1] == k.rsplit("::", 1)[1]]
            c = same_name or c
            if len(c) == 1:
                text = text or json.dumps(d)
                text = text.replace(json.dumps(c[0])[1:-1], json.dumps(k)[1:-1])
                self.renamed[k] = c[0]
        if text:
            d = json.loads(text)
            text = None
        cur_adt = {a["path"]: a for a in d["adts"]}
        for k, kf in known_adts.items():
            if k in cur_adt:
                continue
            want = [t.replace(k, "\0") for _, t in kf]
            c = []
            for p, a in cur_adt.items():
                if p in known_adts or len(a["variants"]) != 1 or a.get("reachable") and a.get("pub"):
                    continue
                if [x["ty"].replace(p, "\0") for x in a["variants"][0]["fields"]] == want and want:
                    c.append(p)
            if len(c) == 1:
                text = text or json.dumps(d)
                # whole-path occurrences only: followed by a non-identifier character
                text = re.sub(re.escape(json.dumps(c[0])[1:-1]) + r"(?![A-Za-z0-9_])", json.dumps(k)[1:-1].replace("\\", "\\\\"), text)
                self.renamed[k] = c[0]
        return json.loads(text) if text else d

    @staticmethod
    def _ty_deref(ty):
        ty = ty.strip()
        for pre in ("&mut ", "&", "*mut ", "*const "):
            if ty.startswith(pre):
                return re.sub(r"^'\w+ ", "", ty[len(pre):].strip())
        m = re.match(r"(alloc::boxed::Box|alloc::rc::Rc|alloc::sync::Arc|core::cell::RefMut|core::cell::Ref|core::pin::Pin)<(?:'\w+, )?(.*)>$", ty)
        if m:
            inner = m.group(2)
            # Box<T, A> / Rc<T, A>: drop a trailing allocator parameter at depth 0
            depth, cut = 0, None
            for i, ch in enumerate(inner):
                depth += ch in "<(["
                depth -= ch in ">)]"
                if ch == "," and depth == 0:
                    cut = i
                    break
            inner = inner[:cut] if cut is not None else inner
            return Facts._ty_deref(inner) if m.group(1).endswith("Pin") else inner
        return ty

    @staticmethod
    def _ty_head(ty):
        ty = ty.strip()
        while ty.startswith("&") or ty.startswith("*"):
            ty = Facts._ty_deref(ty)
        return ty.split("<", 1)[0]

    def _typed_field_rename(self, d, typed):
        """typed: {adt path: {new field name: old field name}}. Rewrites field projections / aggregate field lists of exactly
        those structs (walking the place's type through derefs and known struct fields), leaving equally named fields of
        other structs alone."""
        fields = {}
        for a in d["adts"]:
            if len(a["variants"]) == 1:
                fields[a["path"]] = {x["name"]: x["ty"] for x in a["variants"][0]["fields"]}
        for a in d["adts"]:
            m = typed.get(a["path"])
            if m and len(a["variants"]) == 1:
                for x in a["variants"][0]["fields"]:
                    if x["name"] in m:
                        self.renamed["%s.%s" % (a["path"], m[x["name"]])] = x["name"]
                        x["name"] = m[x["name"]]

        def fix_place(pl, locals_):
            if not pl.get("p") or pl["l"] >= len(locals_):
                return
            ty = locals_[pl["l"]]
            for i, e in enumerate(pl["p"]):
                if ty is None:
                    return
                if e == "*":
                    ty = Facts._ty_deref(ty)
                elif isinstance(e, str) and e.startswith("."):
                    head = Facts._ty_head(ty)
                    name = e[1:]
                    ft = fields.get(head, {}).get(name)
                    if head in typed and name in typed[head]:
                        pl["p"][i] = "." + typed[head][name]
                    ty = ft
                else:
                    return               # downcasts, indexing: stop (fields behind them are not the private ones renamed here)

        def walk(x, locals_):
            if isinstance(x, list):
                for e in x:
                    walk(e, locals_)
            elif isinstance(x, dict):
                if isinstance(x.get("l"), int) and isinstance(x.get("p"), list):
                    fix_place(x, locals_)
                if x.get("k") == "agg" and x.get("adt") in typed and isinstance(x.get("fields"), list):
                    x["fields"] = [typed[x["adt"]].get(n, n) for n in x["fields"]]
                for v in x.values():
                    if isinstance(v, (dict, list)):
                        walk(v, locals_)
        for fj in d["fns"]:
            walk(fj["blocks"], fj["locals"])
            for pj in fj.get("promoted", []):
                walk(pj.get("blocks", []), pj.get("locals", []))
        return d

    def _resolve_variant_renames(self, d, known_enums):
        """A private enum of the confirmed tree whose variants kept their order and payload types but not their names
        (`CollectCommand::{StartCollect..}` -> `{Start..}`) gets the old variant names back: in its definition, in the
        aggregates that build it, in the variant tables of discriminant reads and in downcast projections of places of
        that type."""
        maps = {}
        for a in d["adts"]:
            kv = known_enums.get(a["path"])
            if not kv or len(kv) != len(a["variants"]) or (a.get("pub") and a.get("reachable")):
                continue
            cur = [(v["name"], [x["ty"] for x in v["fields"]]) for v in a["variants"]]
            if [n for n, _ in cur] == [n for n, _ in kv]:
                continue
            if [t for _, t in cur] != [t for _, t in kv]:
                continue
            m = {c[0]: k[0] for c, k in zip(cur, kv) if c[0] != k[0]}
            if m:
                maps[a["path"]] = m
                for v in a["variants"]:
                    v["name"] = m.get(v["name"], v["name"])
                self.renamed[a["path"] + "::*"] = m
        if not maps:
            return d
        name_sets = {p: set(m) for p, m in maps.items()}

        def fix_place(pl, locals_):
            if not pl.get("p") or pl["l"] >= len(locals_):
                return
            ty = locals_[pl["l"]]
            for i, e in enumerate(pl["p"]):
                if ty is None:
                    return
                if e == "*":
                    ty = Facts._ty_deref(ty)
                elif isinstance(e, str) and e.startswith("@"):
                    head = Facts._ty_head(ty)
                    if head in maps and e[1:] in maps[head]:
                        pl["p"][i] = "@" + maps[head][e[1:]]
                    return
                else:
                    return

        def walk(x, locals_):
            if isinstance(x, list):
                for e in x:
                    walk(e, locals_)
            elif isinstance(x, dict):
                if isinstance(x.get("l"), int) and isinstance(x.get("p"), list):
                    fix_place(x, locals_)
                if x.get("k") == "agg" and x.get("adt") in maps and x.get("variant") in maps[x["adt"]]:
                    x["variant"] = maps[x["adt"]][x["variant"]]
                if x.get("k") == "discr" and isinstance(x.get("variants"), list):
                    names = {n for _, n in x["variants"]}
                    for p, ns in name_sets.items():
                        pl = x.get("place") or {}
                        ty = locals_[pl["l"]] if isinstance(pl.get("l"), int) and pl["l"] < len(locals_) else ""
                        if names & ns and (Facts._ty_head(ty) == p or not pl.get("p") and p in ty or names <= (ns | set(maps[p].values()))):
                            x["variants"] = [[i, maps[p].get(n, n)] for i, n in x["variants"]]
                            break
                for v in x.values():
                    if isinstance(v, (dict, list)):
                        walk(v, locals_)
        for fj in d["fns"]:
            walk(fj["blocks"], fj["locals"])
        return d

    def _resolve_field_renames(self, crate, d, known_adts):
        """A private field of a struct of the confirmed tree that is gone, while the struct has exactly one new field of the
        same type, has been renamed: it gets its old name back everywhere (rules name fields such as `.danglings`)."""
        if not known_adts:
            return d
        all_names = {x["name"] for a in d["adts"] for v in a["variants"] for x in v["fields"]}
        pairs = {}
        typed = {}
        for a in d["adts"]:
            kf = known_adts.get(a["path"])
            if not kf or len(a["variants"]) != 1:
                continue
            cur = [(x["name"], x["ty"]) for x in a["variants"][0]["fields"]]
            kn = {n for n, _ in kf}
            cn = {n for n, _ in cur}
            gone = [(n, t) for n, t in kf if n not in cn]
            new = [(n, t) for n, t in cur if n not in kn]
            for n, t in gone:
                c = [m for m, mt in new if mt == t]
                if len(c) == 1 and len([1 for g2, t2 in gone if t2 == t]) == 1 and c[0] not in pairs and not c[0].isdigit():
                    # the new name must not be a field of any other struct of the crate (the replacement is by name)
                    others = {x["name"] for b in d["adts"] if b is not a for v in b["variants"] for x in v["fields"]}
                    if c[0] not in others and n not in (all_names - {n}):
                        pairs[c[0]] = n
                    else:
                        typed.setdefault(a["path"], {})[c[0]] = n       # the name is used elsewhere too: rewrite by type
        if typed:
            d = self._typed_field_rename(d, typed)
        if not pairs:
            return d
        text = json.dumps(d)
        for new, old in pairs.items():
            text = text.replace('".%s"' % new, '".%s"' % old).replace('"name": "%s"' % new, '"name": "%s"' % old)
            # aggregate field lists and debug names: exact JSON strings only
            text = re.sub(r'(?:(?<=\[)|(?<=, ))"%s"(?=[,\]])' % re.escape(new), '"%s"' % old, text)
            self.renamed["." + old] = "." + new
        return json.loads(text)

    # ---- helper absorption: a crate-local function the rules have never seen is part of its callers
    def normalise(self):
        """Functions that are not in rules/known_fns.json (the items of the tree the rules were confirmed on), are not
        public API, not trait-impl methods, not coroutines and not recursive are *helpers somebody extracted*: they are
        inlined into their callers (depth 5) and, when every use is a direct call, dropped as standalone bodies. On the
        confirmed tree this is the identity. Whole-program scans and anchored rules then see through extracted helpers."""
        kp = os.path.join(os.path.dirname(os.path.abspath(__file__)), "known_fns.json")
        if not os.path.exists(kp):
            return
        with open(kp) as fh:
            known = {c: set(v) for c, v in json.load(fh).items() if not c.startswith("__")}      # dict keys (path -> signature) or a plain list

        def base(p):
            return re.sub(r"#\d+$", "", p)
        with open(kp) as fh:
            allk = json.load(fh)
        try:
            self._specialise_flag_helpers(known, allk)
        except Exception as e:           # the specialisation is an optional convenience: never let it take the analysis down
            self.normalise_notes = getattr(self, "normalise_notes", []) + ["flag specialisation skipped: %r" % (e,)]
        new_from = self._hoist_into_conversions(known)
        keep_body = set()
        # `text.parse::<T>()` is `T::from_str(text)` when T's FromStr impl is one of the analysed crates'
        for p, f in list(self.fns.items()):
            if f.crate not in known:
                continue
            j = None
            for bi, blk in enumerate(f.blocks):
                t = blk["term"]
                if t["k"] == "call" and t["callee"].endswith("core::str::<impl str>::parse") and t.get("targs"):
                    cand = "<%s as core::str::traits::FromStr>::from_str" % t["targs"][0]
                    if cand in self.fns:
                        if j is None:
                            j = json.loads(json.dumps(f.j))
                        t2 = j["blocks"][bi]["term"]
                        t2["callee"], t2["decl"], t2["ck"] = cand, "core::str::traits::FromStr::from_str", "item"
            if j is not None:
                nf = Fn(j, f.crate)
                for attr in ("inlined", "inlined_paths"):
                    if hasattr(f, attr):
                        setattr(nf, attr, getattr(f, attr))
                self.fns[p] = nf
        new_type_known = allk.get("__adts__") or {}
        new_type_known = {c: dict(new_type_known.get(c, {}), **(allk.get("__enums__") or {}).get(c, {})) for c in set(new_type_known) | set(allk.get("__enums__") or {})}
        self.known_types = {c: set(v) for c, v in new_type_known.items()}
        for p, f in list(self.fns.items()):
            if f.crate in known:
                g = desugar_bool_then(self, f)
                if g is not f:
                    self.fns[p] = g
        cand = {}
        for p, f in self.fns.items():
            if f.crate not in known or f.kind == "Closure" or f.j.get("coroutine") or base(p) in known[f.crate]:
                continue
            if p.startswith("<") and " as " in p.split(">::")[0]:
                # trait impl method: keeps its identity, unless the trait itself is a new crate-local (private) trait --
                # code moved into `impl Amend for SpanSet` is a helper like any other
                tr = p.split(" as ", 1)[1].rsplit(">::", 1)[0]
                tr_crate = tr.split("::", 1)[0].lstrip("<")
                known_traits = {k.split(" as ", 1)[1].rsplit(">::", 1)[0] for k in known[f.crate] if k.startswith("<") and " as " in k}
                # ... or the impl is for a type the confirmed tree does not have (a hand-written iterator that replaced a
                # `map(closure)`): inlined where it is called directly, and kept as a body (std calls it through the trait)
                self_ty = re.sub(r"<.*$", "", p[1:].split(" as ", 1)[0])
                new_type = self_ty in self.adts and self_ty.split("::", 1)[0] == f.crate and self_ty not in new_type_known.get(f.crate, {}) \
                    and not self_ty.endswith("}")
                if (tr_crate != f.crate or tr in known_traits) and p not in new_from and not new_type:
                    continue
                if new_type:
                    keep_body.add(p)
            if f.j.get("exported"):
                continue                      # new public API: a root of its own
            if f.j.get("pub") and f.j.get("reachable"):
                keep_body.add(p)              # `pub fn` of a private module / unnameable type: a helper for its callers, and still a body of its own
            if any(b["term"]["k"] == "yield" for b in f.blocks):
                continue
            cand[p] = f
        if not cand:
            return
        # drop recursive candidates (direct or mutual among candidates)
        calls = {p: {f.term(b)["callee"] for b in range(len(f.blocks)) if f.term(b)["k"] == "call"} & set(cand) for p, f in cand.items()}

        def reaches(a, b, seen):
            for c in calls.get(a, ()):
                if c == b or (c not in seen and not seen.add(c) and reaches(c, b, seen)):
                    return True
            return False
        for p in [p for p in cand if reaches(p, p, set())]:
            del cand[p]
        fnrefs = set()
        direct = set()
        for p, f in self.fns.items():
            for blk in f.blocks:
                t = blk["term"]
                if t["k"] == "call":
                    if t["callee"] in cand and len(t["args"]) == cand[t["callee"]].arg_count:
                        direct.add(t["callee"])
                    for a in t["args"]:
                        if a["k"] == "const" and a.get("fn") in cand:
                            fnrefs.add(a["fn"])
                for st in blk["stmts"]:
                    if st["k"] == "assign":
                        for o in _operands_of_rv(st["rv"]):
                            if o["k"] == "const" and o.get("fn") in cand:
                                fnrefs.add(o["fn"])
        # methods of a new private trait are reached through the trait (resolved while a generic helper is inlined)
        inl = {p for p in cand if p in direct or (p.startswith("<") and " as " in p.split(">::")[0])}
        if inl:
            def should(g):
                return g.path in inl
            for p, f in list(self.fns.items()):
                if p in inl:
                    continue
                if any(blk["term"]["k"] == "call" and blk["term"]["callee"] in inl for blk in f.blocks):
                    self.fns[p] = inline_calls(self, f, should, depth=5)
            for p in inl:
                if p not in fnrefs and p not in keep_body:
                    self.absorbed[p] = self.fns.pop(p)
        # helpers passed by name become closures of the function that names them
        n = 0
        for _pass in range(6):
          progressed = False
          for p, f in list(self.fns.items()):
            j = None
            for bi, blk in enumerate(f.blocks):
                t = blk["term"]
                if t["k"] != "call":
                    continue
                for ai, a in enumerate(t["args"]):
                    if a["k"] == "const" and a.get("fn") in cand:
                        if j is None:
                            j = json.loads(json.dumps(f.j))
                        g = self.fns.get(a["fn"], cand[a["fn"]])
                        n += 1
                        cpath = "%s::{closure#fn:%s#%d}" % (re.sub(r"(::\{closure#[^}]*\})+$", "", p), g.path.rsplit("::", 1)[1], n)
                        self.fns[cpath] = closureise(g, cpath, f.j.get("root", p))
                        nl = len(j["locals"])
                        j["locals"].append("[closure@%s]" % cpath)
                        j["blocks"][bi]["stmts"].append({"k": "assign", "lhs": {"l": nl, "p": []}, "span": t.get("span", ""),
                                                         "rv": {"k": "agg", "closure": cpath, "ops": [], "fields": []}})
                        j["blocks"][bi]["term"]["args"][ai] = {"k": "move", "l": nl, "p": []}
            if j is not None:
                nf = Fn(j, f.crate)
                for attr in ("inlined", "inlined_paths"):
                    if hasattr(f, attr):
                        setattr(nf, attr, getattr(f, attr))
                self.fns[p] = nf
                progressed = True
          if not progressed:
            break
        for p in fnrefs:
            if p in self.fns and p not in direct:
                self.absorbed[p] = self.fns.pop(p)
            elif p in self.fns and p in inl:
                self.absorbed[p] = self.fns.pop(p)
        self.fn_items_as_values = fnrefs
        # closures of an absorbed helper live on as closures of nobody: what they call through a captured closure (the callback the
        # helper was given) is known now that the helper sits in its caller
        for p, f in list(self.fns.items()):
            if f.kind == "Closure" and re.sub(r"(::\{closure#[^}]*\})+$", "", p) in self.absorbed:
                # (only when the helper was inlined at one place: a closure shared by several callers has several callbacks)
                built = sum(1 for h in self.fns.values() for blk in h.blocks for st in blk["stmts"]
                            if st["k"] == "assign" and st["rv"]["k"] == "agg" and st["rv"].get("closure") == p)
                if built != 1:
                    continue
                g = inline_closure_calls(self, f)
                if g is not f:
                    self.fns[p] = g
        # state grouped into a new private struct whose methods have just been inlined: back to one local per field
        with open(kp) as fh:
            known_adts = (json.load(fh).get("__adts__") or {})
        for p, f in list(self.fns.items()):
            if f.crate in known and getattr(f, "inlined", False):
                g = scalarise_struct_locals(self, f, set(known_adts.get(f.crate, {})))
                g = resolve_local_derefs(g)
                if g is not f:
                    self.fns[p] = g

    # ---- two functions merged behind a mode flag: split again
    def _flag_value(self, f, op, depth=6):
        """('B', 0|1) / ('E', adt, variant) when the operand is a compile-time constant flag, else None."""
        for _ in range(depth):
            if op["k"] == "const":
                return ("B", int(op["v"])) if op.get("ty") == "bool" and "v" in op else None
            if op["k"] not in ("copy", "move") or op["p"]:
                return None
            sd = f.single_def(op["l"])
            if not sd or sd[1] == "term" or sd[2]["k"] != "assign":
                return None
            rv = sd[2]["rv"]
            if rv["k"] == "use":
                op = rv["op"]
            elif rv["k"] == "agg" and rv.get("adt") and not rv.get("ops") and self._is_flag_enum(rv["adt"]):
                return ("E", rv["adt"], rv["variant"])
            else:
                return None
        return None

    def _is_flag_enum(self, ty):
        a = self.adts.get(ty)
        return bool(a) and a.get("kind") in ("Enum", "enum") and len(a["variants"]) >= 2 and all(not v["fields"] for v in a["variants"])

    def _specialise_flag_helpers(self, known, allk):
        """`fn dispatch(cmd, mode: Mode)` that replaced `fn send(cmd)` and `fn force_send(cmd)`: when an unknown private helper takes
        a bool / field-less private enum and every call site passes a constant, one copy per constant is made (flag parameter
        removed, the flag's tests folded, dead arms cut off -- also inside the helper's closures that captured the flag), the call
        sites are redirected, and a copy whose signature and callee set match a function of the confirmed tree that is gone gets
        that function's name back. Copies that match nothing stay helpers and are inlined by the absorption step below."""
        def base(p):
            return re.sub(r"#\d+$", "", p)
        sigs = {c: v for c, v in allk.items() if not c.startswith("__")}
        finger = allk.get("__callees__") or {}
        for p, h in list(self.fns.items()):
            if h.crate not in known or h.kind == "Closure" or base(p) in known[h.crate] or p.startswith("<") or h.j.get("exported") \
                    or h.j.get("coroutine"):
                continue
            flags = [i for i in range(1, h.arg_count + 1) if h.locals[i] == "bool" or self._is_flag_enum(h.locals[i])]
            if not flags:
                continue
            sites = [(q, f, bi) for q, f in self.fns.items() for bi, blk in enumerate(f.blocks)
                     if blk["term"]["k"] == "call" and blk["term"]["callee"] == p and len(blk["term"]["args"]) == h.arg_count]
            refs = any(o.get("fn") == p for f in self.fns.values() for blk in f.blocks for st in blk["stmts"] if st["k"] == "assign"
                       for o in _operands_of_rv(st["rv"]) if o["k"] == "const") or \
                any(a.get("fn") == p for f in self.fns.values() for blk in f.blocks if blk["term"]["k"] == "call" for a in blk["term"]["args"] if a["k"] == "const")
            if len(sites) < 2 or refs or any(q == p or q.startswith(p + "::{closure") for q, _, _ in sites):
                continue
            for i in flags:
                vals = [self._flag_value(f, f.term(bi)["args"][i - 1]) for _, f, bi in sites]
                if any(v is None for v in vals) or len(set(vals)) < 2:
                    continue
                if len(fn_defs_whole(h, i)) != 0:
                    continue
                self._split_on_flag(p, h, i, sites, vals, known, sigs, finger)
                break

    def _split_on_flag(self, p, h, i, sites, vals, known, sigs, finger):
        closures = {q: g for q, g in self.fns.items() if q.startswith(p + "::{closure")}
        made = {}
        for v in sorted(set(vals)):
            label = ("true" if v[1] else "false") if v[0] == "B" else v[2]
            np_ = "%s$%s" % (p, label)
            # --- the function body: flag parameter -> a local holding the constant
            j = json.loads(json.dumps(h.j).replace(json.dumps(p + "::{closure")[1:-1], json.dumps(np_ + "::{closure")[1:-1]))
            n = len(j["locals"])

            def f(l, i=i, n=n):
                return l if l < i else (n - 1 if l == i else l - 1)
            j["blocks"] = _remap_locals(j["blocks"], f)
            j["names"] = [x for x in _remap_locals(j.get("names", []), f)]
            ty = j["locals"].pop(i)
            j["locals"].append(ty)
            j["arg_count"] = h.arg_count - 1
            if "inputs" in j and len(j["inputs"]) >= i:
                j["inputs"] = j["inputs"][:i - 1] + j["inputs"][i:]
            j["path"] = np_
            flag_local = n - 1
            rv = {"k": "use", "op": {"k": "const", "ty": "bool", "repr": "true" if v[1] else "false", "v": v[1]}} if v[0] == "B" else \
                {"k": "agg", "adt": v[1], "adt_full": v[1], "variant": v[2], "fields": [], "ops": []}
            j["blocks"][0]["stmts"].insert(0, {"k": "assign", "lhs": {"l": flag_local, "p": []}, "rv": rv, "span": j.get("span", "")})
            cj = {}
            for q, g in closures.items():
                c = json.loads(json.dumps(g.j).replace(json.dumps(p + "::{closure")[1:-1], json.dumps(np_ + "::{closure")[1:-1]))
                c["path"] = np_ + q[len(p):]
                if c.get("root") == p:
                    c["root"] = np_
                cj[c["path"]] = c
            _fold_flag_constants(self, j, cj)
            made[v] = (np_, j, cj)
        # --- names: a copy that is what a vanished function of the confirmed tree was gets that function's name
        crate = h.crate
        parent = p.rsplit("::", 1)[0]
        missing = [k for k in known[crate] if k not in self.fns and k.rsplit("::", 1)[0] == parent and not k.startswith("<")]
        def sig_of(j):
            return "(%s) -> %s" % (", ".join(j.get("inputs", [])), j.get("output", ""))
        def callees_of(j, cj):
            out = set()
            for x in [j] + list(cj.values()):
                for blk in x["blocks"]:
                    t = blk["term"]
                    if t["k"] == "call" and not blk["cleanup"]:
                        out.add(t.get("decl") or t["callee"])
            return out
        scores = []
        for v, (np_, j, cj) in made.items():
            mine = callees_of(j, cj)
            for k in missing:
                if (sigs.get(crate) or {}).get(k) != sig_of(j):
                    continue
                theirs = set((finger.get(crate) or {}).get(k, []))
                if not theirs:
                    continue
                scores.append((len(mine & theirs) / float(len(mine | theirs) or 1), v, k))
        scores.sort(reverse=True)
        taken_v, taken_k, rename = set(), set(), {}
        for sc, v, k in scores:
            if sc < 0.6 or v in taken_v or k in taken_k:
                continue
            # unambiguous: no other pairing of this copy or this name scores the same
            if any(abs(sc2 - sc) < 1e-9 and ((v2 == v) != (k2 == k)) for sc2, v2, k2 in scores):
                continue
            rename[v] = k
            taken_v.add(v)
            taken_k.add(k)
        for v, (np_, j, cj) in made.items():
            final = rename.get(v, np_)
            txt_from, txt_to = json.dumps(np_)[1:-1], json.dumps(final)[1:-1]
            def ren(x):
                return json.loads(json.dumps(x).replace(txt_from + "::{closure", txt_to + "::{closure")) if final != np_ else x
            j = ren(j)
            j["path"] = final
            self.fns[final] = Fn(j, crate)
            for cp, c in cj.items():
                c = ren(c)
                c["path"] = final + cp[len(np_):]
                if c.get("root") == np_:
                    c["root"] = final
                self.fns[c["path"]] = Fn(c, crate)
            made[v] = (final, j, cj)
            if final != np_:
                self.renamed[np_] = final
        # --- call sites
        touched = {}
        for (q, f, bi), v in zip(sites, vals):
            jq = touched.get(q)
            if jq is None:
                jq = touched[q] = json.loads(json.dumps(self.fns[q].j))
            t = jq["blocks"][bi]["term"]
            t["callee"] = made[v][0]
            t["decl"] = made[v][0]
            t["args"] = t["args"][:i - 1] + t["args"][i:]
            if "arg_tys" in t:
                t["arg_tys"] = t["arg_tys"][:i - 1] + t["arg_tys"][i:]
        for q, jq in touched.items():
            old = self.fns[q]
            nf = Fn(jq, old.crate)
            for attr in ("inlined", "inlined_paths"):
                if hasattr(old, attr):
                    setattr(nf, attr, getattr(old, attr))
            self.fns[q] = nf
        # the merged original is gone
        for q in [p] + list(closures):
            self.absorbed[q] = self.fns.pop(q)

    def _hoist_into_conversions(self, known):
        """`fn f(x: impl Into<X>) { let x = x.into(); .. }` called with a payload type T is `f(X::from(payload))`: the
        conversion is moved to the call sites (where the concrete `From` impl is known) and f takes an X again. New `From`
        impls between crate-local types are conversion helpers like any other extracted function; their paths are returned so
        that the absorption below inlines them. Explicit `.into()` calls with concrete types are resolved the same way."""
        new_from = set()
        FROM = "<%s as core::convert::From<%s>>::from"
        for p, f in self.fns.items():
            if f.crate in known and p.startswith("<") and " as core::convert::From<" in p and p.endswith(">::from") and p not in known[f.crate]:
                self_ty = p[1:].split(" as ", 1)[0]
                if self_ty.split("::", 1)[0] == f.crate:
                    new_from.add(p)
        if not new_from:
            return new_from
        hoist = {}                                   # fn path -> (param local, generic index, X)
        for p, f in self.fns.items():
            if f.crate not in known or f.kind == "Closure":
                continue
            gens = f.j.get("generics", [])
            for pr in f.j.get("predicates", []):
                m = re.fullmatch(r"(.+): core::convert::Into<(.+)>", pr)
                if not m or m.group(1) not in gens:
                    continue
                G, X = m.group(1), m.group(2)
                params = [i for i in range(1, f.arg_count + 1) if f.locals[i] == G]
                if len(params) != 1:
                    continue
                # the only thing done with the parameter: moved (perhaps through one temporary) into Into::into
                uses = [(bi, t) for bi, blk in enumerate(f.blocks) for t in [blk["term"]] if t["k"] == "call" and t.get("decl") == "core::convert::Into::into"
                        and len(t["args"]) == 1 and t["args"][0]["k"] in ("copy", "move") and G in f.locals[t["args"][0]["l"]]]
                if len(uses) == 1 and not f.blocks[uses[0][0]]["cleanup"] and uses[0][1].get("target") is not None:
                    hoist[p] = (params[0], gens.index(G), X, uses[0][0])
        changed = {}
        for p, (pl, gi, X, ub) in hoist.items():
            f = self.fns[p]
            j = json.loads(json.dumps(f.j))
            t = j["blocks"][ub]["term"]
            j["blocks"][ub]["stmts"].append({"k": "assign", "lhs": t["dest"], "rv": {"k": "use", "op": t["args"][0]}, "span": t.get("span", "")})
            j["blocks"][ub]["term"] = {"k": "goto", "target": t["target"], "span": t.get("span", "")}
            G = j["generics"][gi]
            j["locals"] = [X if ty == G else ty for ty in j["locals"]]
            j["inputs"] = [X if ty == G else ty for ty in j.get("inputs", [])]
            changed[p] = j
        for p, f in self.fns.items():
            j = changed.get(p)
            for bi in range(len(f.blocks)):
                t = (j or f.j)["blocks"][bi]["term"]
                if t["k"] != "call":
                    continue
                conv = None
                if t["callee"] in hoist and len(t["args"]) == self.fns[t["callee"]].arg_count:
                    pl, gi, X, _ = hoist[t["callee"]]
                    targs = t.get("targs", [])
                    T = targs[gi] if gi < len(targs) else None
                    if T and T != X and FROM % (X, T) in self.fns:
                        conv = (pl - 1, X, T)
                elif t.get("decl") == "core::convert::Into::into" and len(t.get("targs", [])) >= 2 and FROM % (t["targs"][1], t["targs"][0]) in new_from:
                    if j is None:
                        j = changed[p] = json.loads(json.dumps(f.j))
                    t = j["blocks"][bi]["term"]
                    t["callee"], t["ck"], t["decl"] = FROM % (t["targs"][1], t["targs"][0]), "item", "core::convert::From::from"
                    continue
                if conv is None:
                    continue
                if j is None:
                    j = changed[p] = json.loads(json.dumps(f.j))
                t = j["blocks"][bi]["term"]
                ai, X, T = conv
                nl = len(j["locals"])
                j["locals"].append(X)
                nb = len(j["blocks"])
                # bb_i: tmp = X::from(arg) -> bb_new ; bb_new: the original call with tmp
                call2 = dict(t)
                call2["args"] = list(t["args"])
                call2["args"][ai] = {"k": "move", "l": nl, "p": []}
                if "arg_tys" in call2:
                    call2["arg_tys"] = list(call2["arg_tys"])
                    call2["arg_tys"][ai] = X
                j["blocks"].append({"cleanup": j["blocks"][bi]["cleanup"], "stmts": [], "term": call2})
                j["blocks"][bi]["term"] = {"k": "call", "callee": FROM % (X, T), "decl": "core::convert::From::from", "ck": "item",
                                           "args": [t["args"][ai]], "arg_tys": [T], "targs": [], "dest": {"l": nl, "p": []}, "target": nb,
                                           "unwind": t.get("unwind", "continue"), "span": t.get("span", "")}
        for p, j in changed.items():
            self.fns[p] = Fn(j, self.fns[p].crate)
        return new_from

    def n_bodies(self):
        return len(self.fns)

    def n_calls(self):
        return sum(m["n_calls"] for m in self.meta.values())

    def fn(self, path):
        return self.fns.get(path)

    def fns_re(self, regex):
        rx = re.compile(regex)
        return [f for p, f in self.fns.items() if rx.search(p)]

    def closures_of(self, fn):
        roots = {fn.path} | set(getattr(fn, "inlined_paths", ()))
        return [f for f in self.fns.values() if f.j.get("root") in roots and f.kind == "Closure"]

    def implements(self, self_ty_re, trait_re):
        rs, rt = re.compile(self_ty_re), re.compile(trait_re)
        return [i for i in self.impls if rs.search(i["self_ty"]) and rt.search(i["trait"])]

    # ---- call graph (P7)
    def callgraph(self):
        if self._cg is not None:
            return self._cg
        cg = {}
        for p, fn in self.fns.items():
            out = []
            for b, blk in enumerate(fn.blocks):
                t = blk["term"]
                if t["k"] == "call":
                    out.append(("call", t["callee"], b))
                    # closures handed to callees run (at most) where they are handed over
                elif t["k"] == "drop":
                    for g in t["glue"]:
                        out.append(("drop", g.split("|")[0], b))
                for s in blk["stmts"]:
                    if s["k"] == "assign" and s["rv"]["k"] == "agg" and "closure" in s["rv"]:
                        out.append(("closure", s["rv"]["closure"], b))
                    if s["k"] == "assign":
                        # function items used as values (passed as callbacks)
                        for o in _operands_of_rv(s["rv"]):
                            if o["k"] == "const" and "fn" in o:
                                out.append(("fnref", o["fn"], b))
                if t["k"] == "call":
                    for a in t["args"]:
                        if a["k"] == "const" and "fn" in a:
                            out.append(("fnref", a["fn"], b))
            cg[p] = out
        # thread-local / static initialisers run where the static is first touched
        inits = defaultdict(list)
        for sp in self.statics:
            for q in self.fns:
                if q.startswith(sp + "::"):
                    inits[sp].append(q)
        for p, fn in self.fns.items():
            seen_st = set()
            for b, blk in enumerate(fn.blocks):
                ops = []
                for s in blk["stmts"]:
                    if s["k"] == "assign":
                        if s["rv"]["k"] == "tls":
                            ops.append({"static": s["rv"]["static"]})
                        ops += _operands_of_rv(s["rv"])
                t = blk["term"]
                if t["k"] == "call":
                    ops += t["args"]
                for o in ops:
                    st = o.get("static")
                    if st and st in inits and (st, b) not in seen_st and not p.startswith(st + "::"):
                        seen_st.add((st, b))
                        for q in inits[st]:
                            cg[p].append(("tls-init", q, b))
        self._cg = cg
        return cg

    def reachable(self, roots, stop=lambda callee: False, edge_filter=None):
        """Set of callee names (local fn paths and external/unresolved names) reachable from roots.
        Returns dict name -> (parent name, kind, block) for path reconstruction."""
        cg = self.callgraph()
        parent = {}
        work = []
        for r in roots:
            if r not in parent:
                parent[r] = None
                work.append(r)
        while work:
            p = work.pop()
            if p not in cg:
                continue
            for (kind, callee, b) in cg[p]:
                if edge_filter and not edge_filter(p, kind, callee, b):
                    continue
                if callee in parent:
                    continue
                parent[callee] = (p, kind, b)
                if stop(callee):
                    continue
                work.append(callee)
        return parent

    def path_to(self, parent, name):
        out = []
        cur = name
        while cur is not None:
            pr = parent.get(cur)
            if pr is None:
                out.append(cur)
                break
            p, kind, b = pr
            fn = self.fns.get(p)
            out.append("%s  <-[%s at %s]" % (cur, kind, fn.loc(b) if fn else "?"))
            cur = p
        return list(reversed(out))

    def may_reach(self, start, regex, stop=lambda c: False):
        rx = re.compile(regex)
        par = self.reachable([start], stop=stop)
        return [n for n in par if rx.search(n)]


def _operands_of_rv(rv):
    k = rv["k"]
    if k in ("use", "repeat", "cast"):
        return [rv["op"]]
    if k == "binop":
        return [rv["a"], rv["b"]]
    if k == "unop":
        return [rv["a"]]
    if k == "agg":
        return rv["ops"]
    return []


# --------------------------------------------------------------------------- provenance (P5)

TRANSPARENT = [
    # (regex on callee, indexes of arguments the result is derived from)
    (r"option::Option::<T>::(as_ref|as_mut|unwrap|expect|unwrap_or_default|take|cloned|copied|filter|ok_or|as_deref|unwrap_unchecked|is_some_and)$", [0]),
    (r"option::Option::<T>::(unwrap_or|or)$", [0, 1]),
    (r"result::Result::<T, E>::(ok|unwrap|expect|as_ref|as_mut|unwrap_or_default|err)$", [0]),
    (r"result::Result::<T, E>::(unwrap_or)$", [0, 1]),
    (r"(clone::Clone|borrow::ToOwned)::(clone|to_owned)$", [0]),
    (r"as (std|core)::clone::Clone>::clone$", [0]),
    (r"ops::(deref::)?(Deref|DerefMut)>?::(deref|deref_mut)$", [0]),
    (r"as (std|core)::ops::(Deref|DerefMut)>::(deref|deref_mut)$", [0]),
    (r"convert::(From|Into)(<.*>)?>?::(from|into)$", [0]),
    (r"convert::(AsRef|AsMut)(<.*>)?>?::(as_ref|as_mut)$", [0]),
    (r"ops::(index::)?(Index|IndexMut)(<.*>)?>?::(index|index_mut)$", [0]),
    (r"slice::<impl \[T\]>::(iter|iter_mut|first|last|get|to_vec|into_vec|first_mut|last_mut)$", [0]),
    (r"(vec::Vec::<T, A>|vec::Vec::<T>)::(drain|as_slice|as_mut_slice|last_mut|iter|pop|remove|first)$", [0]),
    (r"vec_deque::VecDeque::<T, A>::(pop_front|pop_back|front|back|iter|drain)$", [0]),
    (r"linked_list::LinkedList::<T, A>::(pop_front|pop_back|front|back|iter)$", [0]),
    (r"iter::(traits::)?(collect::)?IntoIterator>?::into_iter$", [0]),
    (r"Iterator>?::(next|collect|cloned|copied|rev|enumerate|peekable|filter|find|skip_while|take_while|last|nth|skip|take|by_ref)$", [0]),
    (r"Iterator>?::(chain|zip)$", [0, 1]),
    (r"ops::try_trait::Try>?::branch$", [0]),
    (r"ops::try_trait::FromResidual(<.*>)?>?::from_residual$", [0]),
    (r"boxed::Box::<T>::new$", [0]),
    (r"sync::Arc::<T>::new$", [0]),
    (r"rc::Rc::<T>::new$", [0]),
    (r"cell::RefCell::<T>::(borrow|borrow_mut|new)$", [0]),
    (r"cell::UnsafeCell::<T>::(get|new)$", [0]),
    (r"pin::Pin::<Ptr>::(as_mut|get_mut|new|as_ref|get_ref|new_unchecked|get_unchecked_mut|map_unchecked_mut)$", [0]),
    (r"string::ToString>?::to_string$", [0]),
    (r"borrow::Cow::<'_, B>::(into_owned|to_mut)$", [0]),
    (r"mem::(take|replace)$", [0]),
    (r"collections::hash::map::HashMap::<K, V, S, A>::(get_mut|get|remove|values_mut|values|entry|drain)$", [0]),
    (r"hash::map::Entry::<'a, K, V, A>::or_default$", [0]),
    (r"hash_map::Entry::<'a, K, V>::or_default$", [0]),
    (r"num::<impl u\d+>::(saturating_sub|saturating_add|wrapping_add|wrapping_sub|min|max)$", [0, 1]),
    (r"cmp::Ord>?::(min|max)$", [0, 1]),
]
_TRANSPARENT_RX = [(re.compile(rx), idx) for rx, idx in TRANSPARENT]

# Combinators whose result is the closure's return value, the closure's parameter being bound to (an element of)
# the data argument: (regex, data index, closure index, also_data) -- also_data: the data argument itself can be
# the result too (unwrap_or_else, get_or_insert_with).
COMBINATORS = [
    (r"option::Option::<T>::(map|and_then)$", 0, 1, False),
    (r"option::Option::<T>::(is_some_and|is_none_or)$", 0, 1, True),
    (r"result::Result::<T, E>::(is_ok_and|is_err_and)$", 0, 1, True),
    (r"option::Option::<T>::(map_or|map_or_else)$", 0, 2, False),
    (r"option::Option::<T>::(unwrap_or_else|or_else|get_or_insert_with)$", 0, 1, True),
    (r"result::Result::<T, E>::(map|and_then)$", 0, 1, False),
    (r"result::Result::<T, E>::(map_err|unwrap_or_else|or_else)$", 0, 1, True),
    (r"Iterator>?::(map|filter_map|flat_map|any|all|position|find_map|map_while|for_each|fold)$", 0, 1, False),
    (r"bool>?::then$", 0, 1, False),
]
_COMBINATORS_RX = [(re.compile(rx), d, c, a) for rx, d, c, a in COMBINATORS]


def transparent_args(callee):
    for rx, idx in _TRANSPARENT_RX:
        if rx.search(callee):
            return idx
    return None


def combinator(callee):
    for rx, d, c, a in _COMBINATORS_RX:
        if rx.search(callee):
            return d, c, a
    return None


_GROWABLE = re.compile(r"alloc::(vec::Vec|collections::vec_deque::VecDeque)<")
_GROW_RX = r"(vec::Vec::<T, A>|vec_deque::VecDeque::<T, A>)::(push|push_back|push_front|insert|extend\w*|append)$|iter::traits::collect::Extend(<.*>)?>?::extend$"


class Prov:
    """Flow-insensitive provenance over one function, following crate-local callees to a depth."""

    def __init__(self, facts, max_depth=3):
        self.facts = facts
        self.max_depth = max_depth
        self._memo = {}
        self._promoted = {}

    def of_operand(self, fn, op, path=(), depth=0):
        if op["k"] in ("copy", "move"):
            return self.of_place(fn, op, path, depth)
        if op["k"] == "const":
            if "fn" in op:
                return {Origin("const", "fn:" + op["fn"], path)}
            if "static" in op:
                return {Origin("static", op["static"], path)}
            m = re.search(r"::promoted\[(\d+)\]$", op.get("repr", ""))
            if m and int(m.group(1)) < len(fn.j.get("promoted", [])):
                pj = fn.j["promoted"][int(m.group(1))]
                key = "%s::promoted[%s]" % (fn.path, m.group(1))
                pf = self._promoted.get(key)
                if pf is None:
                    pf = Fn({"path": key, "kind": "Promoted", "blocks": pj["blocks"], "locals": pj["locals"],
                             "arg_count": 0, "span": fn.span, "names": []}, fn.crate)
                    self._promoted[key] = pf
                return self.of_local(pf, 0, path, depth)
            return {Origin("const", op.get("repr", "?"), path)}
        return {Origin("unknown", op.get("repr", "?"), path)}

    def of_place(self, fn, pl, path=(), depth=0):
        path = fields_of(pl["p"]) + tuple(path)
        return self.of_local(fn, pl["l"], path, depth)

    def of_local(self, fn, local, path=(), depth=0, _seen=None):
        key = (fn.path, local, path, depth)
        if key in self._memo:
            return self._memo[key]
        if _seen is None:
            _seen = set()
        sk = (fn.path, local, path)
        if sk in _seen:
            return set()
        _seen = _seen | {sk}
        out = set()
        # parameters / closure environment
        if 1 <= local <= fn.arg_count:
            if fn.kind == "Closure" and local == 1:
                if path:
                    out.add(Origin("upvar", path[0].lstrip("."), path[1:]))
                else:
                    out.add(Origin("upvar", "*", ()))
            else:
                out.add(Origin("param", local, path))
        for (b, i, s) in fn.defs(local):
            if i == "term":
                # call result
                if s["dest"]["p"]:
                    continue
                out |= self._through_call(fn, b, s, path, depth, _seen)
                continue
            lhs = s["lhs"]
            lf = fields_of(lhs["p"])
            if s["k"] == "setdiscr":
                continue
            if lf:
                # partial write: relevant when it writes (a prefix of) the requested path
                if path[:len(lf)] == lf:
                    sub = path[len(lf):]
                elif lf[:len(path)] == path:
                    sub = ()
                else:
                    continue
            else:
                sub = path
            rv = s["rv"]
            out |= self._of_rvalue(fn, b, rv, sub, depth, _seen)
        # a vector filled element by element (`let mut v = Vec::with_capacity(n); for .. { v.push(x) }`) holds what was pushed
        if not path and local > fn.arg_count and local < len(fn.locals) and _GROWABLE.match(fn.locals[local]) and self._built_empty(fn, local):
            for cb in fn.calls_re(_GROW_RX, cleanup=False):
                t = fn.term(cb)
                if len(t["args"]) < 2 or t["args"][0]["k"] not in ("copy", "move") or t["args"][0]["p"]:
                    continue
                sd = fn.single_def(t["args"][0]["l"])
                if not sd or sd[1] == "term" or sd[2]["k"] != "assign" or sd[2]["rv"]["k"] != "ref" or sd[2]["rv"]["place"]["l"] != local \
                        or sd[2]["rv"]["place"]["p"]:
                    continue
                val = t["args"][2] if t["callee"].endswith("::insert") and len(t["args"]) > 2 else t["args"][1]
                for o in self._rec(fn, val, (), depth, _seen):
                    out.add(Origin(o.kind, o.key, o.path, o.via + (("call", t["callee"], cb),)))
        # `a && b` lowers to: switch(a) [false: L = false; true: L = b].  L true implies a true, so the
        # origins of `a` are origins of L with the same polarity (needed to see through helper predicates).
        if local < len(fn.locals) and fn.locals[local] == "bool" and not path:
            out |= self._and_operands(fn, local, depth, _seen)
        if not out:
            out.add(Origin("unknown", "_%d" % local, path))
        self._memo[key] = out
        return out

    def _built_empty(self, fn, local):
        """The local starts as an empty container of its own (Vec::new / with_capacity / default): it is not a view of a parameter."""
        ds = fn.defs(local)
        return bool(ds) and all(d[1] == "term" and re.search(r"::(new|with_capacity|default)$", d[2]["callee"]) for d in ds)

    def _and_operands(self, fn, local, depth, _seen):
        defs = [d for d in fn.defs(local) if d[1] != "term" and d[2]["k"] == "assign" and not d[2]["lhs"]["p"]]
        if len(defs) < 2 or len(defs) != len(fn.defs(local)):
            return set()
        falses = [d for d in defs if d[2]["rv"]["k"] == "use" and d[2]["rv"]["op"]["k"] == "const" and d[2]["rv"]["op"].get("v") == 0]
        others = [d for d in defs if d not in falses]
        if not falses or not others:
            return set()
        other_blocks = {d[0] for d in others}
        pm = fn.preds_map()
        out = set()
        for (bf, _, _) in falses:
            for p in pm.get(bf, []):
                t = fn.term(p)
                if t["k"] != "switch" or t["discr_ty"] != "bool":
                    continue
                false_e = {(a, d) for a, d, _ in fn.switch_edges(p, False)}
                true_e = {(a, d) for a, d, _ in fn.switch_edges(p, True)}
                if (p, bf) not in false_e:
                    continue
                # the true edge must lead to the other definition(s) before anything else defines L
                ok = any(other_blocks & fn.reach([(a, d)], avoid_blocks=[bf]) for a, d in true_e)
                if ok and t["discr"]["k"] in ("copy", "move"):
                    for o in self._rec(fn, t["discr"], (), depth, _seen):
                        out.add(Origin(o.kind, o.key, o.path, o.via + (("and",),)))
        return out

    def _rec(self, fn, op, path, depth, _seen):
        if op["k"] in ("copy", "move"):
            p = fields_of(op["p"]) + tuple(path)
            return self.of_local(fn, op["l"], p, depth, _seen)
        return self.of_operand(fn, op, path, depth)

    def _of_rvalue(self, fn, b, rv, path, depth, _seen):
        k = rv["k"]
        if k in ("use", "repeat"):
            return self._rec(fn, rv["op"], path, depth, _seen)
        if k == "cast":
            return {Origin(o.kind, o.key, o.path, o.via + (("cast", rv["ty"]),))
                    for o in self._rec(fn, rv["op"], path, depth, _seen)}
        if k in ("ref", "rawptr"):
            pl = rv["place"]
            p = fields_of(pl["p"]) + tuple(path)
            return self.of_local(fn, pl["l"], p, depth, _seen)
        if k == "tls":
            return {Origin("static", rv["static"], path)}
        if k == "binop":
            out = set()
            cv = None
            for side in ("a", "b"):
                if rv[side]["k"] == "const" and "v" in rv[side]:
                    cv = rv[side]["v"]
            if cv is None:
                for side in ("a", "b"):        # `_16 = 4_usize; Eq(move _14, move _16)`
                    c = const_value(fn, rv[side], 3)
                    if c is not None:
                        cv = c
            for side in ("a", "b"):
                for o in self._rec(fn, rv[side], (), depth, _seen):
                    out.add(Origin(o.kind, o.key, o.path, o.via + (("binop", rv["op"], cv, side),)))
            return out
        if k == "unop":
            return {Origin(o.kind, o.key, o.path, o.via + (("unop", rv["op"]),))
                    for o in self._rec(fn, rv["a"], (), depth, _seen)}
        if k == "discr":
            pl = rv["place"]
            return {Origin(o.kind, o.key, o.path, o.via + (("discr",),))
                    for o in self.of_local(fn, pl["l"], fields_of(pl["p"]), depth, _seen)}
        if k == "agg":
            out = set()
            if "adt" in rv and rv.get("variant") in ("Some", "Ok", "Err", "Continue", "Break", "Ready") and len(rv["ops"]) == 1 \
                    and path and not path[0].startswith("@") and path[0] != ".0":
                # payload selectors are dropped when a path is read (fields_of), so they are transparent when it is built:
                # `Some(fields)?.trace_id` is `fields.trace_id`
                return self._rec(fn, rv["ops"][0], path, depth, _seen)
            if "fields" in rv and path and not rv.get("tuple"):
                # pick the field the path selects
                want = path[0]
                names = rv["fields"]
                sel = [i for i, n in enumerate(names) if "." + n == want]
                if "adt" in rv and want.startswith("@"):
                    # downcast to the variant being built
                    if want == "@" + rv["variant"]:
                        return self._of_rvalue(fn, b, rv, path[1:], depth, _seen)
                    return set()
                if sel:
                    for i in sel:
                        if i < len(rv["ops"]):
                            out |= self._rec(fn, rv["ops"][i], path[1:], depth, _seen)
                    return out
            if rv.get("tuple") and path and re.fullmatch(r"\.\d+", path[0]):
                i = int(path[0][1:])
                if i < len(rv["ops"]):
                    return self._rec(fn, rv["ops"][i], path[1:], depth, _seen)
            for o in rv["ops"]:
                out |= self._rec(fn, o, (), depth, _seen)
            if not rv["ops"]:
                tag = rv.get("adt", rv.get("closure", "tuple"))
                out.add(Origin("agg", "%s::%s" % (tag, rv.get("variant", "")), path))
            return out
        return {Origin("unknown", rv.get("repr", k), path)}

    def _through_call(self, fn, b, t, path, depth, _seen):
        callee = t["callee"]
        args = t["args"]
        via = ("call", callee, b)
        out = set()
        if re.search(r"<core::option::Option<T> as core::ops::try_trait::FromResidual<core::option::Option<core::convert::Infallible>>>::from_residual$", callee):
            # `opt?` on the None side: the value returned is None, nothing of the tested option is in it
            return {Origin("agg", "core::option::Option::None", (), (via,))} if not path else set()
        idx = transparent_args(callee) or transparent_args(t.get("decl", ""))
        comb = combinator(callee) or combinator(t.get("decl", ""))
        local_fn = self.facts.fns.get(callee)
        if comb is not None and len(args) > comb[1]:
            di, ci, also = comb
            if self._is_closure_arg(fn, args[ci]):
                out |= self._closure_result(fn, args[ci], path, depth, _seen, via, data=args[di])
            else:
                # a function item or an opaque callable: the result depends on data and callable; a foreign function
                # handed over by name (`.all(u8::is_ascii_hexdigit)`) is applied to the data: recorded like a call
                applied = ()
                if args[ci]["k"] == "const" and "fn" in args[ci] and args[ci]["fn"] not in self.facts.fns:
                    applied = (("call", args[ci]["fn"], b),)
                for a in (args[di], args[ci]):
                    for o in self._rec(fn, a, (), depth, _seen):
                        out.add(Origin(o.kind, o.key, o.path, o.via + (applied if a is args[di] else ()) + (via,)))
                if args[ci]["k"] == "const" and "fn" in args[ci]:
                    g = self.facts.fns.get(args[ci]["fn"])
                    if g is not None and depth < self.max_depth:
                        for o in self.of_local(g, 0, path, depth + 1):
                            if o.kind == "param":
                                for o2 in self._rec(fn, args[di], o.path, depth, _seen):
                                    out.add(Origin(o2.kind, o2.key, o2.path, o2.via + o.via + (via,)))
                            else:
                                out.add(Origin(o.kind, o.key, o.path, o.via + (via,)))
            if also:
                for o in self._rec(fn, args[di], path, depth, _seen):
                    out.add(Origin(o.kind, o.key, o.path, o.via + (via,)))
            if ci == 2:
                # map_or(default, f) / map_or_else(default_fn, f): the default is a possible result too
                if self._is_closure_arg(fn, args[1]):
                    out |= self._closure_result(fn, args[1], path, depth, _seen, via)
                else:
                    for o in self._rec(fn, args[1], path, depth, _seen):
                        out.add(Origin(o.kind, o.key, o.path, o.via + (via,)))
            return out
        if idx is not None:
            for i in idx:
                if i < len(args):
                    a = args[i]
                    for o in self._rec(fn, a, path if i == 0 else (), depth, _seen):
                        out.add(Origin(o.kind, o.key, o.path, o.via + (via,)))
            return out
        if local_fn is not None and depth < self.max_depth and local_fn.kind != "Closure":
            # summarise: origins of the callee's return place over its parameters
            for o in self.of_local(local_fn, 0, path, depth + 1):
                if o.kind == "param":
                    ai = o.key - 1
                    if ai < len(args):
                        for o2 in self._rec(fn, args[ai], o.path, depth, _seen):
                            out.add(Origin(o2.kind, o2.key, o2.path, o2.via + o.via + (via,)))
                else:
                    out.add(Origin(o.kind, o.key, o.path, o.via + (via,)))
            return out
        if local_fn is not None and local_fn.kind == "Closure" and depth < self.max_depth:
            # direct call of a closure value: args[0] is the closure, args[1] the argument tuple
            out |= self._closure_result(fn, args[0], path, depth, _seen, via) if args else set()
            return out
        # unknown callee: a call-site root that depends on all arguments
        if not args:
            return {Origin("call", callee, path, (via,))}
        out.add(Origin("call", callee, path, (via,)))
        for a in args:
            for o in self._rec(fn, a, (), depth, _seen):
                out.add(Origin(o.kind, o.key, o.path, o.via + (via,)))
        return out

    def _closure_def(self, fn, op):
        """If operand is (a move of) a closure constructed in fn: (closure Fn, aggregate rvalue). A crate-local function
        handed over by name (`.all(is_hex)`) counts as a closure without captures."""
        if op["k"] == "const" and op.get("fn") in self.facts.fns:
            return (self.facts.fns[op["fn"]], {"k": "agg", "closure": op["fn"], "ops": [], "fields": [], "fn_item": True})
        if op["k"] not in ("copy", "move") or op["p"]:
            return None
        cur = op["l"]
        for _ in range(4):
            sd = fn.single_def(cur)
            if sd is None or sd[1] == "term":
                return None
            s = sd[2]
            if s["k"] != "assign":
                return None
            rv = s["rv"]
            if rv["k"] == "agg" and "closure" in rv:
                cf = self.facts.fns.get(rv["closure"])
                return (cf, rv) if cf else None
            if rv["k"] == "use" and rv["op"]["k"] in ("copy", "move") and not rv["op"]["p"]:
                cur = rv["op"]["l"]
                continue
            return None
        return None

    def resolve_upvars(self, cf, origins, hops=3):
        """Origins of kind `upvar` (a closure's captured variable) replaced by the origins of what was captured, looked up
        where the closure is constructed. Values computed before a `.map(|x| ..)` and used inside it keep their source."""
        out = set()
        for o in origins:
            if o.kind != "upvar" or hops <= 0 or cf.kind != "Closure":
                out.add(o)
                continue
            found = False
            for g in self.facts.fns.values():
                if g.crate != cf.crate:
                    continue
                for blk in g.blocks:
                    for st in blk["stmts"]:
                        if st["k"] == "assign" and st["rv"]["k"] == "agg" and st["rv"].get("closure") == cf.path:
                            rv = st["rv"]
                            for i, n in enumerate(rv.get("fields", [])):
                                if (n == o.key or o.key == "*") and i < len(rv["ops"]):
                                    found = True
                                    for o2 in self.resolve_upvars(g, self._rec(g, rv["ops"][i], o.path, 0, set()), hops - 1):
                                        out.add(Origin(o2.kind, o2.key, o2.path, o2.via + o.via))
            if not found:
                out.add(o)
        return out

    def resolve_self_fields(self, fn, origins, hops=2):
        """A method of a struct the confirmed tree does not have (a hand-written iterator / parameter object): origins that are
        fields of `self` are replaced by what the struct's constructions put into those fields -- the same move as
        resolve_upvars for a closure's captures (the struct is a closure written out by hand)."""
        if hops <= 0 or fn.arg_count < 1:
            return set(origins)
        ty = re.sub(r"^&(mut )?", "", fn.locals[1])
        base = re.sub(r"<.*$", "", ty)
        adt = self.facts.adts.get(base)
        if adt is None or base.split("::", 1)[0] != fn.crate or base in getattr(self.facts, "known_types", {}).get(fn.crate, ()):
            return set(origins)
        sites = [(g, st["rv"]) for g in self.facts.fns.values() if g.crate == fn.crate for blk in g.blocks if not blk["cleanup"]
                 for st in blk["stmts"] if st["k"] == "assign" and st["rv"]["k"] == "agg" and st["rv"].get("adt") == base]
        out = set()
        for o in origins:
            flds = [q for q in o.path if q != "*"]
            if o.kind != "param" or o.key != 1 or not flds or not sites:
                out.add(o)
                continue
            found = False
            for g, rv in sites:
                for nme, op in zip(rv.get("fields", []), rv["ops"]):
                    if "." + str(nme) == flds[0]:
                        found = True
                        for o2 in self._rec(g, op, tuple(flds[1:]), 0, set()):
                            out |= self.resolve_self_fields(g, {Origin(o2.kind, o2.key, o2.path, o2.via + o.via)}, hops - 1) \
                                if g is not fn else {Origin(o2.kind, o2.key, o2.path, o2.via + o.via)}
            if not found:
                out.add(o)
        return out

    def lift_closure_origins(self, cf, origins, hops=3):
        """Origins computed inside closure cf, re-expressed in the function that hands the closure to a combinator:
        captured variables become what was captured, the closure's parameter becomes the combinator's data argument
        (`opt.map(|x| f(x))`: x is what opt holds)."""
        out = set()
        if cf.kind != "Closure" or hops <= 0:
            return set(origins)
        sites = []
        for g in self.facts.fns.values():
            if g.crate != cf.crate:
                continue
            for bi, blk in enumerate(g.blocks):
                t = blk["term"]
                if t["k"] != "call":
                    continue
                comb = combinator(t["callee"]) or combinator(t.get("decl", ""))
                if comb is None or len(t["args"]) <= comb[1]:
                    continue
                cd = self._closure_def(g, t["args"][comb[1]])
                if cd and cd[0] is cf:
                    sites.append((g, t, comb, cd[1]))
        for o in origins:
            if o.kind == "upvar":
                out |= self.resolve_upvars(cf, {o})
            elif o.kind == "param" and o.key >= 2 and sites:
                for g, t, comb, agg in sites:
                    for o2 in self._rec(g, t["args"][comb[0]], o.path, 0, set()):
                        lifted = Origin(o2.kind, o2.key, o2.path, o2.via + o.via + (("call", t["callee"], -1),))
                        out |= self.lift_closure_origins(g, {lifted}, hops - 1) if g.kind == "Closure" else {lifted}
            else:
                out.add(o)
        return out

    def _is_closure_arg(self, fn, op):
        return self._closure_def(fn, op) is not None

    def _closure_result(self, fn, op, path, depth, _seen, via, data=None):
        cd = self._closure_def(fn, op)
        out = set()
        if cd is None:
            return out
        cf, agg = cd
        if depth >= self.max_depth:
            return {Origin("call", cf.path, path, (via,))}
        for o in self.of_local(cf, 0, path, depth + 1):
            if o.kind == "upvar":
                names = agg["fields"]
                for i, n in enumerate(names):
                    if n == o.key or o.key == "*":
                        for o2 in self._rec(fn, agg["ops"][i], o.path, depth, _seen):
                            out.add(Origin(o2.kind, o2.key, o2.path, o2.via + o.via + (via,)))
            elif o.kind == "param":
                if data is not None:
                    # the combinator binds the closure's parameter to (an element of) its data argument
                    for o2 in self._rec(fn, data, o.path, depth, _seen):
                        out.add(Origin(o2.kind, o2.key, o2.path, o2.via + o.via + (via,)))
                else:
                    out.add(Origin("cparam", "%s#%d" % (cf.path, o.key), o.path, o.via + (via,)))
            else:
                out.add(Origin(o.kind, o.key, o.path, o.via + (via,)))
        return out


def has_origin(origins, kind=None, key=None, path_suffix=None, path=None):
    for o in origins:
        if kind is not None and o.kind != kind:
            continue
        if key is not None:
            if isinstance(key, str) and isinstance(o.key, str):
                if not re.search(key, o.key):
                    continue
            elif o.key != key:
                continue
        if path is not None and tuple(o.path) != tuple(path):
            continue
        if path_suffix is not None:
            ps = tuple(path_suffix)
            if tuple(o.path[-len(ps):]) != ps:
                continue
        return True
    return False


def origin_strs(origins, limit=8):
    xs = sorted({o.short() for o in origins})
    return xs[:limit] + (["..."] if len(xs) > limit else [])


# --------------------------------------------------------------------------- condition edges (P3 helpers)

def selection_blocks(fn, prov, op, pred, limit=16):
    """Where does a value with an origin accepted by `pred` get *selected* into the chain that ends in operand `op`?
    Walks the definitions back from op while every definition carries such an origin; at the first local that has both
    carrying and non-carrying definitions (a merge: `dst = if c { &mut a } else { &mut b }`, a helper's return slot)
    the blocks of the carrying definitions are returned. None when the chain never splits (the site itself is the place
    to ask for a guard). A condition that guards the selection guards every later use of the selected value."""
    cur = op
    seen = set()
    for _ in range(limit):
        if cur is None or cur.get("k") not in ("copy", "move") or cur["l"] in seen:
            return None
        l = cur["l"]
        seen.add(l)
        if 1 <= l <= fn.arg_count:
            return None
        carrying, other = [], []
        for (b, i, s) in fn.defs(l):
            if i == "term":
                if s["dest"]["p"]:
                    continue
                src = prov._through_call(fn, b, s, (), 0, set())
            else:
                if s["k"] != "assign":
                    continue
                src = prov._of_rvalue(fn, b, s["rv"], (), 0, set())
            (carrying if any(pred(o) for o in src) else other).append((b, i, s))
        if not carrying:
            return None
        if other:
            return sorted({b for b, _, _ in carrying})
        if len(carrying) != 1:
            return None
        b, i, s = carrying[0]
        nxt = None
        if i == "term":
            for a in s["args"]:
                if a["k"] in ("copy", "move") and any(pred(o) for o in prov.of_operand(fn, a)):
                    nxt = a
                    break
        else:
            rv = s["rv"]
            if rv["k"] in ("use", "cast"):
                nxt = rv["op"]
            elif rv["k"] in ("ref", "rawptr"):
                nxt = {"k": "copy", "l": rv["place"]["l"], "p": []}
            elif rv["k"] == "agg":
                for a in rv["ops"]:
                    if a["k"] in ("copy", "move") and any(pred(o) for o in prov.of_operand(fn, a)):
                        nxt = a
                        break
        cur = nxt
    return None


def bool_cond_edges(fn, prov, origin_pred, want, no_constant_way=False):
    """Edges of boolean switches whose tested value has an origin accepted by origin_pred(o),
    taken when that origin's value is `want`. Negations (`!x`) met on the way flip the polarity.
    Values matched through helper predicates (crate-local fns) are followed by Prov."""
    out = set()
    for b, blk in enumerate(fn.blocks):
        t = blk["term"]
        if t["k"] != "switch" or t["discr_ty"] != "bool":
            continue
        d = t["discr"]
        if d["k"] == "const":
            continue
        origins = prov.of_operand(fn, d)
        matched = [o for o in origins if origin_pred(o)]
        if not matched:
            continue
        parities = {sum(1 for v in o.via if v[0] == "unop" and v[1] == "Not") % 2 for o in matched}
        if len(parities) != 1:
            continue
        if no_constant_way:
            # the tested value can also be a constant that takes the wanted edge by itself (`map_or(true, ..)`, `unwrap_or(true)`):
            # crossing the edge then says nothing about the matched origin
            par = next(iter(parities))
            if any(o.kind == "const" and str(o.key) in ("true", "false") and not origin_pred(o) and
                   ((str(o.key) == "true") != (sum(1 for v in o.via if v[0] == "unop" and v[1] == "Not") % 2 == 1)) == (want != (par == 1)) for o in origins):
                continue
        # a conjunction `a && b` lowers to nested switches, each on one operand: fine.
        neg = parities.pop() == 1
        w = (not want) if neg else want
        listed = [v for v, _ in t["targets"]]
        for (dst, lab) in fn.edges(b):
            v = lab[1]
            if v is None:
                truth = True if listed == [0] else (False if listed == [1] else None)
            else:
                truth = bool(v)
            if truth is not None and truth == w:
                out.add((b, dst, lab))
    return out


SOME_COMBINATORS = re.compile(r"option::Option::<T>::(map|and_then|is_some_and|inspect|filter|map_or|map_or_else|take_if|zip_with)$")


def some_guarded_closures(facts, fn, prov, ty_rx):
    """Closures constructed in fn and handed to an Option combinator that runs them only for Some, on a receiver whose
    type matches ty_rx: [(closure Fn, hand-over block)]. `opt.and_then(|x| effect(x))` is `if let Some(x) = opt { effect(x) }`."""
    rx = re.compile(ty_rx)
    out = []
    for b in fn.calls_re(SOME_COMBINATORS.pattern, cleanup=False):
        t = fn.term(b)
        if not t["args"] or not rx.search(t["arg_tys"][0]):
            continue
        # map_or / map_or_else: the Some-closure is the last argument
        for a in t["args"][1:][-1:]:
            cd = prov._closure_def(fn, a)
            if cd:
                out.append((cd[0], b))
    return out


def equal_edges(fn, prov, operand_pred, equal=True):
    """Edges on which a comparison of values accepted by operand_pred(origin-without-the-comparison) is known to hold
    (`a == b` taken true, or `a != b` taken false) -- or, with equal=False, known not to hold."""
    def is_eq(o):
        return operand_pred(o) and any((v[0] == "binop" and v[1] == "Eq") or (v[0] == "call" and re.search(r"PartialEq(<.*>)?>?::eq$", v[1])) for v in o.via) \
            and not any((v[0] == "binop" and v[1] == "Ne") or (v[0] == "call" and re.search(r"PartialEq(<.*>)?>?::ne$", v[1])) for v in o.via)

    def is_ne(o):
        return operand_pred(o) and any((v[0] == "binop" and v[1] == "Ne") or (v[0] == "call" and re.search(r"PartialEq(<.*>)?>?::ne$", v[1])) for v in o.via) \
            and not any((v[0] == "binop" and v[1] == "Eq") or (v[0] == "call" and re.search(r"PartialEq(<.*>)?>?::eq$", v[1])) for v in o.via)
    return bool_cond_edges(fn, prov, is_eq, equal) | bool_cond_edges(fn, prov, is_ne, not equal)


def discr_cond_edges(fn, prov, ty_rx, variants, place_pred=None):
    """Edges of discriminant switches over a place whose type matches ty_rx, taken for `variants`."""
    out = set()
    rx = re.compile(ty_rx)
    for b in range(len(fn.blocks)):
        info = fn.switch_info(b)
        if not info or info.get("kind") != "discr":
            continue
        if not rx.search(info["ty"]):
            continue
        if place_pred is not None and not place_pred(info["place"]):
            continue
        out |= set(fn.variant_edges(b, variants))
    # the predicate form of the same test: `if x.is_none() { return .. }`, `if x.is_some() { .. }`
    pos = {"Some": ("is_some", "is_none"), "None": ("is_none", "is_some"), "Ok": ("is_ok", "is_err"), "Err": ("is_err", "is_ok")}
    names = [pos[v] for v in variants if v in pos]
    if names and len(names) == len(variants):
        for b, blk in enumerate(fn.blocks):
            t = blk["term"]
            if t["k"] != "switch" or t["discr_ty"] != "bool" or t["discr"]["k"] == "const":
                continue
            for o in prov.of_operand(fn, t["discr"]):
                calls = [v for v in o.via if v[0] == "call" and re.search(r"(option::Option::<T>|result::Result::<T, E>)::is_(some|none|ok|err)$", v[1])]
                if len(calls) != 1 or any(v[0] in ("binop", "and") for v in o.via):
                    continue
                cb = calls[0][2]
                if cb >= len(fn.blocks) or fn.blocks[cb]["term"].get("callee") != calls[0][1]:
                    continue
                ct = fn.blocks[cb]["term"]
                if not rx.search(ct["arg_tys"][0]):
                    continue
                if place_pred is not None:
                    a = ct["args"][0]
                    rl, rf = root_local(fn, a)
                    if not place_pred({"l": rl, "p": list(rf)}):
                        continue
                name = calls[0][1].rsplit("::", 1)[1]
                neg = sum(1 for v in o.via if v[0] == "unop" and v[1] == "Not") % 2 == 1
                for same, opposite in names:
                    want = True if name == same else (False if name == opposite else None)
                    if want is None:
                        continue
                    if neg:
                        want = not want
                    listed = [v for v, _ in t["targets"]]
                    for (dst, lab) in fn.edges(b):
                        v = lab[1]
                        truth = (True if listed == [0] else (False if listed == [1] else None)) if v is None else bool(v)
                        if truth is not None and truth == want:
                            out.add((b, dst, lab))
    return out


def sites_star(facts, fn, term_pred, depth=4):
    """Blocks of fn whose call terminator satisfies term_pred, or calls a crate-local callee (or hands over a
    closure constructed in fn) whose body transitively contains such a call (P1 starred form)."""
    memo = {}

    def contains(path, d):
        if path in memo:
            return memo[path]
        memo[path] = False
        g = facts.fns.get(path)
        if g is None or d <= 0:
            return False
        res = False
        for b in g.calls():
            t = g.term(b)
            if term_pred(g, t) or contains(t["callee"], d - 1):
                res = True
                break
        if not res:
            for blk in g.blocks:
                for s in blk["stmts"]:
                    if s["k"] == "assign" and s["rv"]["k"] == "agg" and "closure" in s["rv"] \
                            and contains(s["rv"]["closure"], d - 1):
                        res = True
        memo[path] = res
        return res

    def closure_agg(a, hops=6):
        """The closure aggregate an operand is a (copy of a) move of, if it is constructed in fn."""
        for _ in range(hops):
            if a is None or a["k"] not in ("copy", "move") or a["p"]:
                return None
            sd = fn.single_def(a["l"])
            if not sd or sd[1] == "term" or sd[2]["k"] != "assign":
                return None
            rv = sd[2]["rv"]
            if rv["k"] == "agg" and "closure" in rv:
                return rv
            a = rv["op"] if rv["k"] == "use" else None
        return None

    def closure_contains(rv, d=4):
        """The closure's body contains such a call, or it captured a closure that does (and may invoke it)."""
        if contains(rv["closure"], depth):
            return True
        if d <= 0:
            return False
        for o in rv.get("ops", []):
            inner = closure_agg(o)
            if inner is not None and closure_contains(inner, d - 1):
                return True
        return False

    out = []
    for b in fn.calls():
        t = fn.term(b)
        if term_pred(fn, t):
            out.append(b)
            continue
        if contains(t["callee"], depth):
            out.append(b)
            continue
        # closure arguments constructed here
        for a in t["args"]:
            rv = closure_agg(a)
            if rv is not None and closure_contains(rv):
                out.append(b)
                break
    return out


def agg_sites_star(facts, fn, rv_pred, depth=3):
    """Blocks of fn (cleanup excluded) where an aggregate accepted by rv_pred is built: directly, or inside a closure /
    crate-local callee handed over or called at that block (`.map_err(|_| ChannelClosed)` builds it where map_err is called)."""
    memo = {}

    def builds(path, d):
        if path in memo:
            return memo[path]
        memo[path] = False
        g = facts.fns.get(path)
        if g is None or d <= 0:
            return False
        res = False
        for blk in g.blocks:
            if blk["cleanup"]:
                continue
            for st in blk["stmts"]:
                if st["k"] == "assign" and st["rv"]["k"] == "agg":
                    if rv_pred(st["rv"]) or ("closure" in st["rv"] and builds(st["rv"]["closure"], d - 1)):
                        res = True
            t = blk["term"]
            if t["k"] == "call" and t["callee"] in facts.fns and builds(t["callee"], d - 1):
                res = True
        memo[path] = res
        return res
    out = []
    for b, blk in enumerate(fn.blocks):
        if blk["cleanup"]:
            continue
        hit = False
        for st in blk["stmts"]:
            if st["k"] == "assign" and st["rv"]["k"] == "agg" and rv_pred(st["rv"]):
                hit = True
        t = blk["term"]
        if not hit and t["k"] == "call":
            if t["callee"] in facts.fns and builds(t["callee"], depth):
                hit = True
            for a in t["args"]:
                if hit or a["k"] not in ("copy", "move") or a["p"]:
                    continue
                cur = a
                for _ in range(6):
                    sd = fn.single_def(cur["l"]) if cur and cur["k"] in ("copy", "move") and not cur["p"] else None
                    if not sd or sd[1] == "term" or sd[2]["k"] != "assign":
                        break
                    rv = sd[2]["rv"]
                    if rv["k"] == "agg" and "closure" in rv:
                        hit = builds(rv["closure"], depth)
                        break
                    cur = rv["op"] if rv["k"] == "use" else None
        if hit:
            out.append(b)
    return out


def aggs_reaching(fn, op, adt, limit=200):
    """Variants of `adt` that are constructed in fn and can reach operand `op` through copies, moves, wrapping
    aggregates (Some(cmd), (cmd, x)), projections and transparent calls: [(variant, block)]."""
    out = []
    seen = set()
    work = [op]
    n = 0
    while work and n < limit:
        n += 1
        cur = work.pop()
        if cur is None or cur.get("k") not in ("copy", "move"):
            continue
        l = cur["l"]
        if l in seen:
            continue
        seen.add(l)
        for (b, i, s) in fn.defs(l):
            if i == "term":
                if transparent_args(s["callee"]) is not None or transparent_args(s.get("decl", "")) is not None:
                    for a in s["args"]:
                        work.append(a)
                continue
            if s["k"] != "assign":
                continue
            rv = s["rv"]
            if rv["k"] == "agg":
                if rv.get("adt") == adt:
                    out.append((rv.get("variant"), b))
                else:
                    work.extend(rv["ops"])
            elif rv["k"] in ("use", "cast"):
                work.append(rv["op"])
            elif rv["k"] in ("ref", "rawptr"):
                work.append({"k": "copy", "l": rv["place"]["l"], "p": []})
    return out


def callee_is(t, regex):
    return bool(re.search(regex, t["callee"]) or re.search(regex, t.get("decl", "")))


def root_local(fn, op, max_steps=12):
    """Follow copies / moves / borrows / reborrows (no calls) from an operand or place to the local it denotes.
    -> (local, fields) where fields are the named projections met on the way (outermost last)."""
    l = op["l"]
    flds = list(fields_of(op["p"]))
    for _ in range(max_steps):
        if 1 <= l <= fn.arg_count:
            break
        sd = fn.single_def(l)
        if sd is not None and sd[1] == "term" and sd[2]["args"] and sd[2]["args"][0]["k"] in ("copy", "move") and re.search(
                r"Deref(Mut)?>?::deref(_mut)?$|::as_(mut_)?slice$|Index(Mut)?(<.*>)?>?::index(_mut)?$|Option::<T>::as_(ref|mut)$|Pin::<Ptr>::(as_mut|get_mut)$",
                sd[2]["callee"]):
            src = sd[2]["args"][0]
            flds = list(fields_of(src["p"])) + flds
            l = src["l"]
            continue
        if sd is None or sd[1] == "term" or sd[2]["k"] != "assign":
            break
        rv = sd[2]["rv"]
        if rv["k"] == "use" and rv["op"]["k"] in ("copy", "move"):
            src = rv["op"]
        elif rv["k"] in ("ref", "rawptr"):
            src = rv["place"]
        elif rv["k"] == "agg" and rv.get("array") and len(rv["ops"]) == 1 and rv["ops"][0]["k"] in ("copy", "move"):
            src = rv["ops"][0]
        elif rv["k"] == "agg" and rv.get("tuple") and flds and re.fullmatch(r"\.\d+", flds[0]) and int(flds[0][1:]) < len(rv["ops"]) \
                and rv["ops"][int(flds[0][1:])]["k"] in ("copy", "move"):
            # the argument tuple of a spliced-in closure call: `(a, b).0` is `a`
            src = rv["ops"][int(flds[0][1:])]
            flds = flds[1:]
        else:
            break
        flds = list(fields_of(src["p"])) + flds
        l = src["l"]
    return l, tuple(flds)


def passes_downcast(fn, op, max_steps=12):
    """True when following copies / moves / borrows from operand `op` back to its root local goes through a variant
    payload (`(x as Ok).0`): the operand is what was taken out of a matched enum, not the enum itself."""
    l = op["l"]
    if any(isinstance(e, str) and e.startswith("@") for e in op["p"]):
        return True
    for _ in range(max_steps):
        if 1 <= l <= fn.arg_count:
            return False
        sd = fn.single_def(l)
        if sd is not None and sd[1] == "term" and sd[2]["args"] and sd[2]["args"][0]["k"] in ("copy", "move") and re.search(
                r"Deref(Mut)?>?::deref(_mut)?$|::as_(mut_)?slice$|Index(Mut)?(<.*>)?>?::index(_mut)?$|Option::<T>::as_(ref|mut)$|Pin::<Ptr>::(as_mut|get_mut)$",
                sd[2]["callee"]):
            src = sd[2]["args"][0]
        elif sd is None or sd[1] == "term" or sd[2]["k"] != "assign":
            return False
        else:
            rv = sd[2]["rv"]
            if rv["k"] == "use" and rv["op"]["k"] in ("copy", "move"):
                src = rv["op"]
            elif rv["k"] in ("ref", "rawptr"):
                src = rv["place"]
            else:
                return False
        if any(isinstance(e, str) and e.startswith("@") for e in src["p"]):
            return True
        l = src["l"]
    return False


def first_switches(fn, start, info_pred):
    """Discriminant/bool switches accepted by info_pred(info) that are reached first from block `start`
    (re-tests of the same value further down -- typically inserted by drop elaboration -- are not returned)."""
    sw = set()
    for b in range(len(fn.blocks)):
        if fn.blocks[b]["cleanup"]:
            continue
        info = fn.switch_info(b)
        if info and info_pred(info):
            sw.add(b)
    if start is None:
        return []
    first = set()
    if start in sw:
        return [start]
    r = fn.reach([start], avoid_blocks=sw)
    for b in r:
        for d in fn.succs(b):
            if d in sw:
                first.add(d)
    return sorted(first)


def result_switches(fn, call_block, ty_part=None, proj=None):
    """First switches on the discriminant of call_block's destination (optionally of a projection of it)."""
    t = fn.term(call_block)
    dest = t["dest"]["l"]
    # the result may be moved once or twice and passed through `?` (Try::branch) before it is tested
    derived = {dest}
    for _ in range(4):
        for blk in fn.blocks:
            for st in blk["stmts"]:
                if st["k"] == "assign" and not st["lhs"]["p"] and st["rv"]["k"] == "use" and st["rv"]["op"]["k"] in ("copy", "move") \
                        and not st["rv"]["op"]["p"] and st["rv"]["op"]["l"] in derived:
                    derived.add(st["lhs"]["l"])
            bt = blk["term"]
            if bt["k"] == "call" and "dest" in bt and not bt["dest"]["p"] and \
                    (re.search(r"ops::try_trait::Try>?::branch$", bt["callee"]) or Fn._VT_SAME.search(bt["callee"])) \
                    and bt["args"] and bt["args"][0]["k"] in ("copy", "move") and not bt["args"][0]["p"] and bt["args"][0]["l"] in derived:
                derived.add(bt["dest"]["l"])     # `?`, or a combinator that keeps the variant (map / map_err / as_ref ..)

    def pred(info):
        if info.get("kind") != "discr" or info["place"]["l"] not in derived:
            return False
        flds = [e for e in info["place"]["p"] if e != "*"]
        if proj is None:
            if flds:
                return False
        elif flds != list(proj):
            return False
        return ty_part is None or ty_part in info["ty"]
    res = first_switches(fn, t["target"], pred)
    # `let mut r = f(); while .. { ..; r = f(); }`: the second call's result is moved into `r` *after* drop elaboration has re-tested
    # the old value of `r`; a switch from which the move is still to come (without calling again) tests the old value, not this result
    moves = {}
    for bi, blk in enumerate(fn.blocks):
        for st in blk["stmts"]:
            if st["k"] == "assign" and not st["lhs"]["p"] and st["rv"]["k"] == "use" and st["rv"]["op"]["k"] in ("copy", "move") \
                    and not st["rv"]["op"]["p"] and st["rv"]["op"]["l"] in derived and st["lhs"]["l"] != dest:
                moves.setdefault(st["lhs"]["l"], set()).add(bi)
    out, again, stale = set(), set(), set()
    for s in res:
        loc = fn.switch_info(s)["place"]["l"]
        mv = moves.get(loc, set()) - {s}
        if loc != dest and mv and (mv & fn.reach([s], avoid_blocks=[call_block])):
            again |= mv
            stale.add(s)
        else:
            out.add(s)
    for ab in again:
        out |= set(first_switches(fn, ab, pred)) - stale
    return sorted(out)


def const_value(fn, op, depth=6):
    """Integer value of an operand when it is a constant, possibly through copies and int-to-int casts."""
    if depth <= 0:
        return None
    if op["k"] == "const":
        return op.get("v")
    if op["k"] in ("copy", "move") and not op["p"]:
        sd = fn.single_def(op["l"])
        if sd is None or sd[1] == "term" or sd[2]["k"] != "assign":
            return None
        rv = sd[2]["rv"]
        if rv["k"] == "use":
            return const_value(fn, rv["op"], depth - 1)
        if rv["k"] == "cast" and rv["cast"].startswith("IntToInt"):
            v = const_value(fn, rv["op"], depth - 1)
            return v if v is not None and v >= 0 else None
    return None


def constructions(facts, adt, variant=None, crates=None):
    """P10: every Aggregate building `adt` (optionally a variant): [(fn, block, stmt, {field: operand})]"""
    out = []
    for fn in facts.fns.values():
        if crates is not None and fn.crate not in crates:
            continue
        for b, blk in enumerate(fn.blocks):
            if blk["cleanup"]:
                continue
            for s in blk["stmts"]:
                if s["k"] == "assign" and s["rv"]["k"] == "agg" and s["rv"].get("adt") == adt \
                        and (variant is None or s["rv"]["variant"] == variant):
                    out.append((fn, b, s, dict(zip(s["rv"]["fields"], s["rv"]["ops"]))))
    return out


# --------------------------------------------------------------------------- MIR inlining (robustness to helper extraction)

def _shift_place(p, off, bmap=None):
    q = {"l": p["l"] + off, "p": [(("[_%d]" % (int(e[2:-1]) + off)) if re.fullmatch(r"\[_\d+\]", e) else e) for e in p["p"]]}
    return q


def _shift_op(o, off):
    if o is None:
        return o
    if o.get("k") in ("copy", "move"):
        q = dict(o)
        q.update(_shift_place(o, off))
        return q
    return o


def _shift_rv(rv, off):
    rv = dict(rv)
    for k in ("op", "a", "b"):
        if k in rv and isinstance(rv[k], dict):
            rv[k] = _shift_op(rv[k], off)
    if "place" in rv:
        rv["place"] = _shift_place(rv["place"], off)
    if "ops" in rv:
        rv["ops"] = [_shift_op(o, off) for o in rv["ops"]]
    return rv


def _remap_locals(x, f):
    """Deep copy of a MIR JSON fragment with every local index l replaced by f(l)."""
    if isinstance(x, list):
        return [_remap_locals(e, f) for e in x]
    if isinstance(x, dict):
        if isinstance(x.get("l"), int) and isinstance(x.get("p"), list):
            q = {k: _remap_locals(v, f) for k, v in x.items() if k not in ("l", "p")}
            q["l"] = f(x["l"])
            q["p"] = [(("[_%d]" % f(int(e[2:-1]))) if isinstance(e, str) and re.fullmatch(r"\[_\d+\]", e) else e) for e in x["p"]]
            return q
        return {k: _remap_locals(v, f) for k, v in x.items()}
    return x


def closureise(g, path, root):
    """A closure-shaped copy of function item g (an environment parameter in front of its own), so that a helper passed
    by name -- `iter.map(convert_span)`, `spawn(run_once)` -- is seen exactly like the closure it replaced."""
    j = dict(g.j)

    def f(l):
        return l + 1 if l >= 1 else 0
    j["blocks"] = _remap_locals(g.j["blocks"], f)
    j["names"] = _remap_locals(g.j.get("names", []), f)
    j["locals"] = [g.locals[0], "()"] + list(g.locals[1:])
    j["arg_count"] = g.arg_count + 1
    j["path"] = path
    j["kind"] = "Closure"
    j["root"] = root
    j["captures"] = []
    j["fn_item"] = g.path
    return Fn(j, g.crate)


def inline_calls(facts, fn, should_inline, depth=2):
    """A copy of fn in which calls to crate-local callees accepted by should_inline(callee Fn) are replaced by the
    callee's body (locals and blocks renumbered, parameters bound to the arguments, returns turned into gotos).
    Rules written over one function then see through helper methods extracted from it."""
    if depth <= 0:
        return fn
    j = fn.j
    blocks = [json.loads(json.dumps(b)) for b in j["blocks"]]
    locals_ = list(j["locals"])
    names = list(j["names"])
    changed = False
    nb = len(blocks)
    for bi in range(nb):
        t = blocks[bi]["term"]
        if t["k"] != "call":
            continue
        g = facts.fns.get(t["callee"])
        if g is None or g.kind == "Closure" or g is fn or not should_inline(g) or len(t["args"]) != g.arg_count:
            continue
        if t.get("target") is None and any(b["term"]["k"] == "return" for b in g.blocks):
            continue
        if any(b["term"]["k"] == "yield" for b in g.blocks):
            continue
        g = inline_calls(facts, g, should_inline, depth - 1)
        nested = getattr(g, "inlined_paths", set())
        changed = True
        subst = {n: v for n, v in zip(g.j.get("generics", []), t.get("targs", [])) if re.fullmatch(r"[A-Z]\w*", n)}

        def sub_ty(x):
            for n, v in subst.items():
                x = re.sub(r"(?<![\w:])%s(?![\w:])" % re.escape(n), lambda m: v, x)
            return x
        loff = len(locals_)
        boff = len(blocks)
        locals_ += [sub_ty(x) for x in g.locals] if subst else list(g.locals)
        for nme in g.j.get("names", []):
            names.append({"name": nme["name"], "place": _shift_place(nme["place"], loff)})
        unwind = t.get("unwind")
        for gb in g.blocks:
            nbk = {"cleanup": gb["cleanup"], "stmts": [], "term": None}
            for s in gb["stmts"]:
                s2 = dict(s)
                s2["lhs"] = _shift_place(s["lhs"], loff)
                if "rv" in s2:
                    s2["rv"] = _shift_rv(s["rv"], loff)
                nbk["stmts"].append(s2)
            gt = dict(gb["term"])
            k = gt["k"]
            for key in ("target", "otherwise", "drop"):
                if isinstance(gt.get(key), int):
                    gt[key] = gt[key] + boff
            if k == "switch":
                gt["targets"] = [[v, d + boff] for v, d in gt["targets"]]
                gt["discr"] = _shift_op(gt["discr"], loff)
            if isinstance(gt.get("unwind"), int):
                gt["unwind"] = gt["unwind"] + boff
            elif gt.get("unwind") == "continue" and isinstance(unwind, int):
                gt["unwind"] = unwind
            if k in ("drop",):
                gt["place"] = _shift_place(gt["place"], loff)
            if k == "call":
                if subst and gt.get("targs"):
                    gt["targs"] = [sub_ty(x) for x in gt["targs"]]
                    gt["arg_tys"] = [sub_ty(x) for x in gt.get("arg_tys", [])]
                    if gt.get("ck") == "unresolved" and gt["callee"].startswith("?"):
                        # a method of a crate-local trait on the helper's type parameter: with the caller's type argument the
                        # impl is known (`R: PollOutcome` with R = Poll<Option<_>>)
                        trait, meth = gt["callee"][1:].rsplit("::", 1)
                        self_ty = gt["targs"][0] if gt["targs"] else ""
                        hits = []
                        for im in facts.impls:
                            if im["trait"] != trait:
                                continue
                            pat = re.escape(im["self_ty"])
                            pat = re.sub(r"(?<![\w:])[A-Z]\w?(?![\w:])", ".+", pat)
                            if re.fullmatch(pat, self_ty):
                                hits.append(im)
                        if len(hits) == 1:
                            cand = "<%s as %s>::%s" % (hits[0]["self_ty"], trait, meth)
                            if cand in facts.fns:
                                gt["callee"] = cand
                                gt["ck"] = "item"
                gt["args"] = [_shift_op(a, loff) for a in gt["args"]]
                if "dest" in gt:
                    gt["dest"] = _shift_place(gt["dest"], loff)
                if "func" in gt:
                    gt["func"] = _shift_op(gt["func"], loff)
            if k == "assert":
                gt["cond"] = _shift_op(gt["cond"], loff)
            if k == "return":
                nbk["stmts"].append({"k": "assign", "lhs": t["dest"], "rv": {"k": "use", "op": {"k": "move", "l": loff, "p": []}},
                                     "span": gt.get("span", "")})
                gt = {"k": "goto", "target": t["target"], "span": gt.get("span", "")}
            if k == "resume":
                gt = {"k": "goto", "target": unwind, "span": gt.get("span", "")} if isinstance(unwind, int) else gt
            nbk["term"] = gt
            blocks.append(nbk)
        # bind parameters and jump into the callee
        for i, a in enumerate(t["args"]):
            blocks[bi]["stmts"].append({"k": "assign", "lhs": {"l": loff + 1 + i, "p": []}, "rv": {"k": "use", "op": a}, "span": t.get("span", "")})
        blocks[bi]["term"] = {"k": "goto", "target": boff, "span": t.get("span", ""), "inlined": g.path}
    if not changed:
        return fn
    nj = dict(j)
    nj["blocks"] = blocks
    nj["locals"] = locals_
    nj["names"] = names
    nf = Fn(nj, fn.crate)
    nf.inlined = True
    nf.inlined_paths = set(getattr(fn, "inlined_paths", set()))
    for b in blocks:
        if b["term"].get("inlined"):
            nf.inlined_paths.add(b["term"]["inlined"])
            g = facts.fns.get(b["term"]["inlined"])
    # calls that became resolvable (trait methods on a type parameter, closures handed to the helper and called by it,
    # function items handed to the helper as `fn(..) -> ..` pointers)
    nf = resolve_fnptr_calls(nf)
    if depth > 1:
        nf2 = inline_closure_calls(facts, nf)
        nf3 = inline_calls(facts, nf2, should_inline, depth - 1)
        for x in (nf2, nf3):
            if x is not nf:
                x.inlined = True
                x.inlined_paths = set(getattr(x, "inlined_paths", set())) | nf.inlined_paths
        return nf3
    return nf


def fn_defs_whole(fn, local):
    return [d for d in fn.defs(local) if d[1] == "term" or not d[2].get("lhs", {}).get("p")]


def _fold_flag_constants(facts, j, closures):
    """Constant folding of a flag inside a specialised copy: values of bool / field-less-enum locals (also behind shared
    references and through closure captures) are propagated to discriminant reads and switches; decided switches become
    gotos and the blocks that are left unreachable are emptied."""
    def run(x, capt):
        defs = defaultdict(list)
        for bi, blk in enumerate(x["blocks"]):
            for st in blk["stmts"]:
                if st["k"] == "assign" and not st["lhs"]["p"]:
                    defs[st["lhs"]["l"]].append(st)
                elif st["k"] == "assign":
                    defs[st["lhs"]["l"]].append(None)
            t = blk["term"]
            if t["k"] == "call" and "dest" in t:
                defs[t["dest"]["l"]].append(None)
        val = {}

        def of_place(pl):
            l, pth = pl["l"], list(pl["p"])
            if l == 1 and capt and pth and (pth[0] in capt or (pth[0] == "*" and len(pth) > 1 and pth[1] in capt)):
                k = 1 if pth[0] in capt else 2
                v, rest = capt[pth[k - 1]], pth[k:]
            elif l in val:
                v, rest = val[l], pth
            else:
                return None
            for e in rest:
                if e == "*" and isinstance(v, tuple) and v[0] == "R":
                    v = v[1]
                else:
                    return None
            return v
        changed = True
        while changed:
            changed = False
            for l, ds in defs.items():
                if l in val or len(ds) != 1 or ds[0] is None:
                    continue
                rv = ds[0]["rv"]
                v = None
                if rv["k"] == "use" and rv["op"]["k"] == "const" and rv["op"].get("ty") == "bool" and "v" in rv["op"]:
                    v = ("B", int(rv["op"]["v"]))
                elif rv["k"] == "use" and rv["op"]["k"] in ("copy", "move"):
                    v = of_place(rv["op"])
                elif rv["k"] == "agg" and rv.get("adt") and not rv.get("ops") and facts._is_flag_enum(rv["adt"]):
                    v = ("E", rv["adt"], rv["variant"])
                elif rv["k"] == "ref" and not rv.get("mut"):
                    inner = of_place(rv["place"])
                    v = ("R", inner) if inner is not None else None
                elif rv["k"] == "discr":
                    inner = of_place(rv["place"])
                    if isinstance(inner, tuple) and inner[0] == "E":
                        for idx, name in rv.get("variants", []):
                            if name == inner[2]:
                                v = ("I", idx)
                elif rv["k"] == "unop" and rv.get("op") == "Not" and rv["a"]["k"] in ("copy", "move"):
                    inner = of_place(rv["a"])
                    if isinstance(inner, tuple) and inner[0] == "B":
                        v = ("B", 1 - inner[1])
                if v is not None:
                    val[l] = v
                    changed = True
        # captured constants of the closures built here
        caps = {}
        for blk in x["blocks"]:
            for st in blk["stmts"]:
                if st["k"] == "assign" and st["rv"]["k"] == "agg" and st["rv"].get("closure") in closures:
                    m = {}
                    for nme, op in zip(st["rv"].get("fields", []), st["rv"]["ops"]):
                        v = of_place(op) if op["k"] in ("copy", "move") else None
                        if v is not None:
                            m["." + str(nme)] = v
                    if m:
                        caps[st["rv"]["closure"]] = m
        # decided switches
        for blk in x["blocks"]:
            t = blk["term"]
            if t["k"] == "switch" and t["discr"]["k"] in ("copy", "move"):
                v = of_place(t["discr"])
                if isinstance(v, tuple) and v[0] in ("B", "I"):
                    tgt = [d for k, d in t["targets"] if k == v[1]]
                    blk["term"] = {"k": "goto", "target": tgt[0] if tgt else t["otherwise"], "span": t.get("span", "")}
        # unreachable blocks
        seen, work = set(), [0]
        while work:
            b = work.pop()
            if b in seen:
                continue
            seen.add(b)
            t = x["blocks"][b]["term"]
            for key in ("target", "otherwise", "unwind", "drop"):
                if isinstance(t.get(key), int):
                    work.append(t[key])
            if t["k"] == "switch":
                work.extend(d for _, d in t["targets"])
        for b, blk in enumerate(x["blocks"]):
            if b not in seen:
                blk["stmts"] = []
                blk["term"] = {"k": "unreachable", "span": ""}
        return caps
    caps = run(j, None)
    for cp, m in caps.items():
        if cp in closures:
            run(closures[cp], m)


def _places(x, out, skip=()):
    """Every place-like dict ({"l": int, "p": list}) inside a MIR JSON fragment."""
    if isinstance(x, list):
        for e in x:
            _places(e, out, skip)
    elif isinstance(x, dict):
        if id(x) in skip:
            return
        if isinstance(x.get("l"), int) and isinstance(x.get("p"), list):
            out.append(x)
        for k, v in x.items():
            if k not in ("l", "p"):
                _places(v, out, skip)


def resolve_local_derefs(fn):
    """`(*r).f` where r is, by a chain of single definitions, `&mut L` for a local L of this function (a reference taken only to be
    handed to an inlined helper / closure: `r = &mut L`, `r2 = &mut *r`, `r3 = move r2`, packed into and unpacked from the argument
    tuple of a closure call) is `L.f`: the write or read is made directly on L."""
    j = fn.j
    defs = {}
    for bi, blk in enumerate(j["blocks"]):
        for st in blk["stmts"]:
            if st["k"] == "assign" and not st["lhs"]["p"]:
                defs.setdefault(st["lhs"]["l"], []).append(st)
            elif st["k"] == "assign":
                defs.setdefault(("partial", st["lhs"]["l"]), []).append(st)
        t = blk["term"]
        if t["k"] == "call" and "dest" in t and not t["dest"]["p"]:
            defs.setdefault(t["dest"]["l"], []).append(None)
    alias = {}

    def target(op, depth=0):
        """(L, proj) the operand (a reference value) points to."""
        if depth > 8 or op["k"] not in ("copy", "move"):
            return None
        l, pth = op["l"], op["p"]
        if pth:
            # a field of a tuple of references built here: t = (r0, r1); t.0
            if len(pth) == 1 and re.fullmatch(r"\.\d+", pth[0]) and len(defs.get(l, [])) == 1 and defs[l][0] is not None:
                rv = defs[l][0]["rv"]
                if rv["k"] == "agg" and "tuple" in str(rv.get("agg", rv.get("kind", "tuple"))) or (rv["k"] == "agg" and not rv.get("adt") and not rv.get("closure") and "array" not in rv):
                    k = int(pth[0][1:])
                    if k < len(rv.get("ops", [])):
                        return target(rv["ops"][k], depth + 1)
            return None
        if l <= fn.arg_count or len(defs.get(l, [])) != 1 or defs[l][0] is None:
            return None
        rv = defs[l][0]["rv"]
        if rv["k"] == "use":
            return target(rv["op"], depth + 1)
        if rv["k"] == "ref":
            pl = rv["place"]
            if not pl["p"] or pl["p"][0] != "*":
                if pl["l"] > fn.arg_count and ("partial", pl["l"]) not in defs or pl["l"] > fn.arg_count:
                    return (pl["l"], list(pl["p"]))
                return None
            inner = target({"k": "copy", "l": pl["l"], "p": []}, depth + 1)
            if inner is not None:
                return (inner[0], inner[1] + list(pl["p"][1:]))
        return None
    occ = []
    _places(j["blocks"], occ)
    hits = []
    for pl in occ:
        if pl["p"] and pl["p"][0] == "*" and len(pl["p"]) > 1:
            tg = target({"k": "copy", "l": pl["l"], "p": []})
            if tg is not None:
                hits.append((pl, tg))
    if not hits:
        return fn
    nj = json.loads(json.dumps(j))
    occ2 = []
    _places(nj["blocks"], occ2)
    for pl in occ2:
        if pl["p"] and pl["p"][0] == "*" and len(pl["p"]) > 1:
            tg = target({"k": "copy", "l": pl["l"], "p": []})
            if tg is not None:
                pl["l"], pl["p"] = tg[0], tg[1] + list(pl["p"][1:])
    nf = Fn(nj, fn.crate)
    for attr in ("inlined", "inlined_paths"):
        if hasattr(fn, attr):
            setattr(nf, attr, getattr(fn, attr))
    return nf


def scalarise_struct_locals(facts, fn, known_adts):
    """`let mut st = State { a, b }; .. st.a += 1 ..` (also through `&mut st` left behind by inlined methods) becomes one local
    per field, when st's type is a struct the confirmed tree does not have and st is only ever built field by field and used
    field by field. Rules written over plain counters / buffers then read a parameter object like the locals it replaced."""
    cands = []
    for L in range(fn.arg_count + 1, len(fn.locals)):
        ty = fn.locals[L].split("<", 1)[0]
        a = facts.adts.get(ty)
        if a is None or ty in known_adts or a.get("kind") not in ("Struct", "struct") or len(a["variants"]) != 1 or not a["variants"][0]["fields"]:
            continue
        if ty.split("::", 1)[0] != fn.crate:
            continue
        cands.append((L, ty, a))
    if not cands:
        return fn
    j = json.loads(json.dumps(fn.j))
    changed = False
    done = set()
    for L, ty, a in cands:
        if L in done:
            continue
        fields = [(x["name"], x["ty"]) for x in a["variants"][0]["fields"]]
        fnames = {"." + n for n, _ in fields}
        # the value moved whole between locals of this type (a constructor's return value handed to the `let`): one object
        same, alias_stmts = {L}, set()
        grew = True
        while grew:
            grew = False
            for blk in j["blocks"]:
                for st in blk["stmts"]:
                    if st["k"] == "assign" and not st["lhs"]["p"] and st["rv"]["k"] == "use" and st["rv"]["op"]["k"] in ("copy", "move") \
                            and not st["rv"]["op"]["p"] and id(st) not in alias_stmts:
                        a_, b_ = st["lhs"]["l"], st["rv"]["op"]["l"]
                        if (a_ in same or b_ in same) and fn.locals[a_].split("<", 1)[0] == ty and fn.locals[b_].split("<", 1)[0] == ty \
                                and min(a_, b_) > fn.arg_count:
                            same |= {a_, b_}
                            alias_stmts.add(id(st))
                            grew = True
        done |= same
        # aliases: r = &mut L | r = &mut (*r0) | r = move r0
        alias = {}
        grew = True
        while grew:
            grew = False
            for blk in j["blocks"]:
                for st in blk["stmts"]:
                    if st["k"] != "assign" or st["lhs"]["p"] or id(st) in alias_stmts:
                        continue
                    rv, src = st["rv"], None
                    if rv["k"] == "ref" and rv["place"]["l"] in same and not rv["place"]["p"]:
                        src = L
                    elif rv["k"] == "ref" and rv["place"]["l"] in alias and rv["place"]["p"] == ["*"]:
                        src = L
                    elif rv["k"] == "use" and rv["op"]["k"] in ("copy", "move") and rv["op"]["l"] in alias and not rv["op"]["p"]:
                        src = L
                    if src is not None:
                        alias[st["lhs"]["l"]] = L
                        alias_stmts.add(id(st))
                        grew = True
        # every alias has exactly one definition
        ok = all(len([d for d in fn.defs(r) if d[1] == "term" or not d[2].get("lhs", {}).get("p")]) == 1 for r in alias)
        builds = []
        occ = []
        for blk in j["blocks"]:
            for st in blk["stmts"]:
                if id(st) in alias_stmts:
                    continue
                if st["k"] == "assign" and st["lhs"]["l"] in same and not st["lhs"]["p"]:
                    if st["rv"]["k"] == "agg" and st["rv"].get("adt") == ty and len(st["rv"].get("ops", [])) == len(fields):
                        builds.append((blk, st))
                        _places(st["rv"], occ)
                        continue
                    ok = False
                _places(st, occ)
            _places(blk["term"], occ)
        for pl in occ:
            if pl["l"] in same:
                ok = ok and bool(pl["p"]) and pl["p"][0] in fnames
            elif pl["l"] in alias:
                ok = ok and len(pl["p"]) >= 2 and pl["p"][0] == "*" and pl["p"][1] in fnames
        if not ok or not builds:
            continue
        base = len(j["locals"])
        idx = {}
        for k, (n, fty) in enumerate(fields):
            idx["." + n] = base + k
            j["locals"].append(fty)
        for pl in occ:
            if pl["l"] in same:
                pl["l"], pl["p"] = idx[pl["p"][0]], pl["p"][1:]
            elif pl["l"] in alias:
                pl["l"], pl["p"] = idx[pl["p"][1]], pl["p"][2:]
        for blk in j["blocks"]:
            new = []
            for st in blk["stmts"]:
                if id(st) in alias_stmts:
                    continue
                hit = [b for b in builds if b[1] is st]
                if hit:
                    order = st["rv"].get("fields") or [n for n, _ in fields]
                    for n, op in zip(order, st["rv"]["ops"]):
                        new.append({"k": "assign", "lhs": {"l": idx["." + str(n)], "p": []}, "rv": {"k": "use", "op": op}, "span": st.get("span", "")})
                    continue
                new.append(st)
            blk["stmts"] = new
        for n, _ in fields:
            j.setdefault("names", []).append({"name": n, "place": {"l": idx["." + n], "p": []}})
        changed = True
    if not changed:
        return fn
    nf = Fn(j, fn.crate)
    for attr in ("inlined", "inlined_paths"):
        if hasattr(fn, attr):
            setattr(nf, attr, getattr(fn, attr))
    return nf


def resolve_fnptr_calls(fn):
    """A call through a function pointer whose value is one function item (`parse_field(text, u64::from_str_radix)` after the helper
    has been inlined) is a direct call of that item."""
    j = None
    for bi, blk in enumerate(fn.blocks):
        t = blk["term"]
        if t["k"] != "call" or t.get("ck") != "ptr" or "func" not in t:
            continue
        a = t["func"]
        item = None
        for _hop in range(8):
            if a["k"] == "const" and "fn" in a:
                item = a["fn"]
                break
            if a["k"] not in ("copy", "move") or a["p"]:
                break
            sd = fn.single_def(a["l"])
            if not sd or sd[1] == "term" or sd[2]["k"] != "assign":
                break
            rv = sd[2]["rv"]
            if rv["k"] in ("use", "cast") and isinstance(rv.get("op"), dict):
                a = rv["op"]
            else:
                break
        if item is None:
            continue
        if j is None:
            j = json.loads(json.dumps(fn.j))
        t2 = j["blocks"][bi]["term"]
        t2["callee"], t2["decl"], t2["ck"] = item, item, "item"
        t2.pop("func", None)
    if j is None:
        return fn
    nf = Fn(j, fn.crate)
    for attr in ("inlined", "inlined_paths"):
        if hasattr(fn, attr):
            setattr(nf, attr, getattr(fn, attr))
    return nf


def desugar_bool_then(facts, fn):
    """`cond.then(|| e)` with a closure built in this function is `if cond { Some(e) } else { None }`: the call is replaced by that
    control flow (the closure body spliced in), so that path rules see the test that decides whether `e` runs."""
    sites = [bi for bi, blk in enumerate(fn.blocks) if blk["term"]["k"] == "call" and not blk["cleanup"]
             and re.search(r"core::bool::<impl bool>::then$", blk["term"]["callee"]) and len(blk["term"]["args"]) == 2
             and blk["term"].get("target") is not None and blk["term"]["args"][1]["k"] in ("copy", "move")
             and fn.locals[blk["term"]["args"][1]["l"]].startswith("{closure@")]
    if not sites:
        return fn
    j = json.loads(json.dumps(fn.j))
    for bi in sites:
        t = j["blocks"][bi]["term"]
        sp = t.get("span", "")
        full = t.get("dest_ty", "core::option::Option<?>")
        inner = full[len("core::option::Option<"):-1] if full.startswith("core::option::Option<") else "?"
        tmp = len(j["locals"])
        j["locals"].append(inner)
        nb = len(j["blocks"])
        b_none, b_call, b_some = nb, nb + 1, nb + 2
        j["blocks"].append({"cleanup": False, "stmts": [{"k": "assign", "lhs": t["dest"], "span": sp,
                            "rv": {"k": "agg", "adt": "core::option::Option", "adt_full": full, "variant": "None", "fields": [], "ops": []}}],
                            "term": {"k": "goto", "target": t["target"], "span": sp}})
        j["blocks"].append({"cleanup": False, "stmts": [],
                            "term": {"k": "call", "decl": "core::ops::function::FnOnce::call_once", "callee": "?core::ops::function::FnOnce::call_once",
                                     "ck": "unresolved", "targs": [], "args": [t["args"][1], {"k": "const", "ty": "()", "repr": "()"}],
                                     "arg_tys": [t["arg_tys"][1] if len(t.get("arg_tys", [])) > 1 else "", "()"], "dest": {"l": tmp, "p": []},
                                     "dest_ty": inner, "target": b_some, "unwind": t.get("unwind", "continue"), "expn": False, "span": sp}})
        j["blocks"].append({"cleanup": False, "stmts": [{"k": "assign", "lhs": t["dest"], "span": sp,
                            "rv": {"k": "agg", "adt": "core::option::Option", "adt_full": full, "variant": "Some", "fields": ["0"],
                                   "ops": [{"k": "move", "l": tmp, "p": []}]}}],
                            "term": {"k": "goto", "target": t["target"], "span": sp}})
        j["blocks"][bi]["term"] = {"k": "switch", "discr": t["args"][0], "discr_ty": "bool", "targets": [[0, b_none]], "otherwise": b_call, "span": sp}
    nf = Fn(j, fn.crate)
    for attr in ("inlined", "inlined_paths"):
        if hasattr(fn, attr):
            setattr(nf, attr, getattr(fn, attr))
    out = inline_closure_calls(facts, nf)
    for attr in ("inlined", "inlined_paths"):
        if hasattr(nf, attr) and not hasattr(out, attr):
            setattr(out, attr, getattr(nf, attr))
    return out


def _capture_source(facts, cpath, name):
    """(enclosing Fn, operand) captured under `name` where closure cpath is built."""
    for g in facts.fns.values():
        for blk in g.blocks:
            for st in blk["stmts"]:
                if st["k"] == "assign" and st["rv"]["k"] == "agg" and st["rv"].get("closure") == cpath:
                    rv = st["rv"]
                    for i, n in enumerate(rv.get("fields", [])):
                        if n == name and i < len(rv["ops"]) and rv["ops"][i]["k"] in ("copy", "move"):
                            return g, rv["ops"][i]
    return None


def inline_closure_calls(facts, fn, rounds=3):
    """`f()` where f is a closure built in this very function (typically after a helper that takes `impl FnOnce` was inlined):
    the closure's body is spliced in, its environment bound to the closure value and its parameters to the argument tuple."""
    cur = fn
    for _ in range(rounds):
        j = cur.j
        blocks = None
        for bi, blk in enumerate(j["blocks"]):
            t = blk["term"]
            if t["k"] != "call" or t.get("target") is None or not re.search(r"ops::function::(FnOnce|FnMut|Fn)>?::call(_once|_mut)?$", t.get("decl", t["callee"])):
                continue
            if len(t["args"]) < 1 or t["args"][0]["k"] not in ("copy", "move") or t["args"][0]["p"]:
                continue
            # which closure is being called?
            a, cpath, by_ref = t["args"][0], None, False
            host, env_ref = cur, None
            for _hop in range(10):
                if a["k"] not in ("copy", "move"):
                    break
                if a["p"]:
                    # a captured variable of the closure being analysed (`dispatch(cmd)` where `dispatch` is a closure built by
                    # the enclosing function and handed in by reference): continue where this closure was built
                    names = [q for q in a["p"] if q != "*"]
                    up = _capture_source(facts, cur.path, names[0][1:]) if host is cur and cur.kind == "Closure" and a["l"] == 1 and len(names) == 1 else None
                    if up is None:
                        break
                    host, a = up
                    continue
                if host is cur and env_ref is None and re.match(r"&(mut )?\{closure@", cur.locals[a["l"]]):
                    env_ref = a["l"]
                sd = host.single_def(a["l"])
                if not sd or sd[1] == "term" or sd[2]["k"] != "assign":
                    break
                rv = sd[2]["rv"]
                if rv["k"] == "agg" and "closure" in rv:
                    cpath = rv["closure"]
                    break
                if rv["k"] == "use":
                    a = rv["op"]
                elif rv["k"] == "ref" and not rv["place"]["p"]:
                    if host is cur:
                        by_ref = True
                    a = {"k": "copy", "l": rv["place"]["l"], "p": []}
                elif rv["k"] == "ref" and rv["place"]["p"] == ["*"]:
                    a = {"k": "copy", "l": rv["place"]["l"], "p": []}           # reborrow
                elif rv["k"] == "ref":
                    a = {"k": "copy", "l": rv["place"]["l"], "p": list(rv["place"]["p"])}
                else:
                    break
            g = facts.fns.get(cpath) if cpath else None
            if g is None or g.kind != "Closure" or any(b2["term"]["k"] == "yield" for b2 in g.blocks) or g.path in getattr(cur, "inlined_paths", set()) and False:
                continue
            if blocks is None:
                blocks = [json.loads(json.dumps(b2)) for b2 in j["blocks"]]
                locals_ = list(j["locals"])
                names = list(j["names"])
            loff, boff = len(locals_), len(blocks)
            locals_ += list(g.locals)
            for nme in g.j.get("names", []):
                names.append({"name": nme["name"], "place": _shift_place(nme["place"], loff)})
            unwind = t.get("unwind")
            for gb in g.blocks:
                nbk = {"cleanup": gb["cleanup"], "stmts": [], "term": None}
                for st in gb["stmts"]:
                    s2 = dict(st)
                    s2["lhs"] = _shift_place(st["lhs"], loff)
                    if "rv" in s2:
                        s2["rv"] = _shift_rv(st["rv"], loff)
                    nbk["stmts"].append(s2)
                gt = dict(gb["term"])
                k = gt["k"]
                for key in ("target", "otherwise", "drop"):
                    if isinstance(gt.get(key), int):
                        gt[key] = gt[key] + boff
                if k == "switch":
                    gt["targets"] = [[v, d + boff] for v, d in gt["targets"]]
                    gt["discr"] = _shift_op(gt["discr"], loff)
                if isinstance(gt.get("unwind"), int):
                    gt["unwind"] = gt["unwind"] + boff
                elif gt.get("unwind") == "continue" and isinstance(unwind, int):
                    gt["unwind"] = unwind
                if k == "drop":
                    gt["place"] = _shift_place(gt["place"], loff)
                if k == "call":
                    gt["args"] = [_shift_op(x, loff) for x in gt["args"]]
                    if "dest" in gt:
                        gt["dest"] = _shift_place(gt["dest"], loff)
                    if "func" in gt:
                        gt["func"] = _shift_op(gt["func"], loff)
                if k == "assert":
                    gt["cond"] = _shift_op(gt["cond"], loff)
                if k == "return":
                    nbk["stmts"].append({"k": "assign", "lhs": t["dest"], "rv": {"k": "use", "op": {"k": "move", "l": loff, "p": []}}, "span": gt.get("span", "")})
                    gt = {"k": "goto", "target": t["target"], "span": gt.get("span", "")}
                if k == "resume":
                    gt = {"k": "goto", "target": unwind, "span": gt.get("span", "")} if isinstance(unwind, int) else gt
                nbk["term"] = gt
                blocks.append(nbk)
            sp = t.get("span", "")
            env_ty = g.locals[1] if len(g.locals) > 1 else ""
            arg0 = t["args"][0]
            if env_ty.startswith("&") and env_ref is not None and host is not cur:
                # the closure lives in the enclosing function; what this body holds is a reference to it
                blocks[bi]["stmts"].append({"k": "assign", "lhs": {"l": loff + 1, "p": []}, "span": sp,
                                            "rv": {"k": "use", "op": {"k": "copy", "l": env_ref, "p": []}}})
            elif env_ty.startswith("&") and not by_ref and not cur.locals[arg0["l"]].startswith("&"):
                # the body takes the environment by reference, the call hands the closure over by value
                blocks[bi]["stmts"].append({"k": "assign", "lhs": {"l": loff + 1, "p": []}, "span": sp,
                                            "rv": {"k": "ref", "mut": env_ty.startswith("&mut"), "place": {"l": arg0["l"], "p": []}}})
            else:
                blocks[bi]["stmts"].append({"k": "assign", "lhs": {"l": loff + 1, "p": []}, "rv": {"k": "use", "op": arg0}, "span": sp})
            if len(t["args"]) > 1 and t["args"][1]["k"] in ("copy", "move"):
                tup = t["args"][1]
                for i in range(g.arg_count - 1):
                    blocks[bi]["stmts"].append({"k": "assign", "lhs": {"l": loff + 2 + i, "p": []}, "span": sp,
                                                "rv": {"k": "use", "op": {"k": "move", "l": tup["l"], "p": list(tup["p"]) + [".%d" % i]}}})
            blocks[bi]["term"] = {"k": "goto", "target": boff, "span": sp, "inlined": g.path}
        if blocks is None:
            return cur
        nj = dict(j)
        nj["blocks"], nj["locals"], nj["names"] = blocks, locals_, names
        nf = Fn(nj, cur.crate)
        nf.inlined = True
        nf.inlined_paths = set(getattr(cur, "inlined_paths", set())) | {b2["term"]["inlined"] for b2 in blocks if b2["term"].get("inlined")}
        cur = nf
    return cur
