"""Rules over fastrace::util::spsc (used by C01, C04, C08, C09)."""
import re

from .core import Prov, agg_sites_star, has_origin, origin_strs, result_switches

SENDER = "fastrace::util::spsc::Sender"
RECEIVER = "fastrace::util::spsc::Receiver"

# container operation table: regex on callee -> (role, end)
#   role: enq | deq ; end: back | front | by-index (arg 1 const 0 => front)
OPS = [
    (r"alloc::vec::Vec::<T, A>::push$", "enq", "back"),
    (r"alloc::vec::Vec::<T, A>::insert$", "enq", "index"),
    (r"alloc::vec::Vec::<T, A>::pop$", "deq", "back"),
    (r"alloc::vec::Vec::<T, A>::remove$", "deq", "index"),
    (r"alloc::vec::Vec::<T, A>::drain$", "deq", "front"),
    (r"alloc::vec::Vec::<T, A>::swap_remove$", "deq", "unordered"),
    (r"vec_deque::VecDeque::<T, A>::push_back$", "enq", "back"),
    (r"vec_deque::VecDeque::<T, A>::push_front$", "enq", "front"),
    (r"vec_deque::VecDeque::<T, A>::pop_back$", "deq", "back"),
    (r"vec_deque::VecDeque::<T, A>::pop_front$", "deq", "front"),
    (r"vec_deque::VecDeque::<T, A>::drain$", "deq", "front"),
    (r"linked_list::LinkedList::<T, A>::push_back$", "enq", "back"),
    (r"linked_list::LinkedList::<T, A>::push_front$", "enq", "front"),
    (r"linked_list::LinkedList::<T, A>::pop_back$", "deq", "back"),
    (r"linked_list::LinkedList::<T, A>::pop_front$", "deq", "front"),
    (r"IntoIterator>?::into_iter$", "deq", "front"),
    (r"core::mem::take$", "deq", "front"),
]
TABLE_TEXT = "; ".join("%s=%s@%s" % (rx.split("::")[-1].rstrip("$"), r, e) for rx, r, e in OPS)


def overflow_field(facts):
    adt = facts.adts.get(SENDER)
    if not adt:
        return None
    CONT = r"(alloc::vec::Vec|vec_deque::VecDeque|linked_list::LinkedList)<T"
    cands = [f for f in adt["variants"][0]["fields"] if re.search(CONT, f["ty"])]
    if len(cands) == 1:
        return cands[0]["name"]
    if not cands:
        # the list wrapped in a small private struct (`backlog: Backlog<T>` around a VecDeque<T>): the wrapper's methods are
        # helpers (looked through), the container is the wrapper's one container field
        inner = []
        for f in adt["variants"][0]["fields"]:
            w = facts.adts.get(f["ty"].split("<", 1)[0])
            if w is not None and len(w["variants"]) == 1 and f["ty"].startswith("fastrace::"):
                inner += [x for x in w["variants"][0]["fields"] if re.search(CONT, x["ty"])]
        if len(inner) == 1:
            return inner[0]["name"]
    return None


def classify_ops(fn, prov, field):
    """Calls in fn operating on the overflow field -> [(block, role, end, callee)]"""
    out = []
    for b in fn.calls():
        if fn.blocks[b]["cleanup"]:
            continue
        t = fn.term(b)
        if not t["args"]:
            continue
        for rx, role, end in OPS:
            if re.search(rx, t["callee"]) or re.search(rx, t.get("decl", "")):
                src = prov.of_operand(fn, t["args"][0])
                if not has_origin(src, kind="param", key=1, path_suffix=("." + field,)):
                    continue
                if end == "index":
                    a1 = t["args"][1] if len(t["args"]) > 1 else None
                    end = "front" if a1 and a1["k"] == "const" and a1.get("v") == 0 else "unknown-index"
                out.append((b, role, end, t["callee"]))
                break
    return out


def enq_value(fn, b):
    """The element operand of an enqueue call: argument 1, or argument 2 for `insert(index, value)`."""
    t = fn.term(b)
    i = 2 if re.search(r"::insert$", t["callee"]) and len(t["args"]) > 2 else 1
    return t["args"][i]


def replay_ends(facts, prov, field):
    """The end(s) of the overflow list from which send / force_send take parked commands."""
    ends = set()
    for name in ("send", "force_send"):
        fn = facts.fn("%s::<T>::%s" % (SENDER, name))
        if fn is not None:
            ends |= {e for b, role, e, c in classify_ops(fn, prov, field) if role == "deq"}
    return ends


def ring_pushes(fn):
    return [b for b in fn.calls_re(r"rtrb::Producer::<T>::push$") if not fn.blocks[b]["cleanup"]]


def result_switch(fn, call_block):
    return result_switches(fn, call_block)


def fields(pl):
    return [e for e in pl["p"] if e != "*"]


def rule_try_recv(ctx, facts, rule):
    """Closed means closed *and empty*: after is_abandoned() the ring is popped once more before Err(ChannelClosed)."""
    fn = ctx.need_fn(facts, RECEIVER + "::<T>::try_recv", rule)
    if fn is None:
        return
    closed = agg_sites_star(facts, fn, lambda rv: rv.get("adt", "").endswith("spsc::ChannelClosed"))
    aband = [b for b in fn.calls_re(r"rtrb::Consumer::<T>::is_abandoned$") if not fn.blocks[b]["cleanup"]]
    pops = [b for b in fn.calls_re(r"rtrb::Consumer::<T>::pop$") if not fn.blocks[b]["cleanup"]]
    if not ctx.floor(rule, fn.path, len(closed), 1, "constructions of ChannelClosed"):
        return
    if not ctx.floor(rule, fn.path, len(pops), 1, "Consumer::pop calls"):
        return
    # (1) closed is only reported after the producer was seen gone
    r0 = fn.reach([0], avoid_blocks=aband)
    ctx.check(not (r0 & set(closed)), rule, fn.path, fn.loc(closed[0]),
              "Err(ChannelClosed) is only produced after Consumer::is_abandoned() was consulted",
              "is_abandoned at %s" % [fn.loc(b) for b in aband],
              "a path reaches the ChannelClosed construction without calling is_abandoned()", extra="abandoned")
    # (2) ... and after that, the ring was looked at once more
    for a in aband:
        t = fn.term(a)
        r = fn.reach([t["target"]], avoid_blocks=pops) if t["target"] is not None else set()
        bad = sorted(r & set(closed))
        ctx.check(not bad, rule, fn.path, fn.loc(a),
                  "every path from is_abandoned() to Err(ChannelClosed) pops the ring again (items pushed before the "
                  "producer was dropped stay poppable)",
                  "re-pop at %s" % [fn.loc(b) for b in pops if b in fn.reach([t["target"]])],
                  "path is_abandoned() (bb%d) -> ChannelClosed (bb%s) with no Consumer::pop in between: a producer that "
                  "pushes its last commands and exits between the empty pop and is_abandoned() loses them and the "
                  "receiver is unregistered" % (a, bad and bad[0]), extra="repop")


def rule_force_send_keeps(ctx, facts, rule):
    """No feasible path through force_send drops the value: a full ring parks it on the overflow list."""
    fn = ctx.need_fn(facts, SENDER + "::<T>::force_send", rule)
    field = overflow_field(facts)
    if fn is None:
        return
    if field is None:
        ctx.fail(rule, SENDER, "-", "Sender<T> has exactly one growable container of T (the overflow list)",
                 "anchor lost: no such field", extra="field")
        return
    prov = Prov(facts)
    ops = classify_ops(fn, prov, field)
    enq = [b for b, role, _, _ in ops if role == "enq"]
    pushes = ring_pushes(fn)
    if not ctx.floor(rule, fn.path, len(pushes), 1, "Producer::push calls"):
        return
    for p in pushes:
        sws = result_switch(fn, p)
        if not sws:
            ctx.fail(rule, fn.path, fn.loc(p), "the result of Producer::push is examined",
                     "result of the ring push at bb%d is never matched: a full ring silently drops the command" % p,
                     extra="push%d" % pushes.index(p))
            continue
        ok = True
        wit = None
        for sw in sws:
            err = fn.variant_edges(sw, ["Err"])
            if not err:
                continue
            starts = [d for (_, d, _) in err]
            m, w = fn.must_pass(starts, enq)
            if not m:
                ok, wit = False, w
        ctx.check(ok, rule, fn.path, fn.loc(p),
                  "from the Err(Full) edge of Producer::push every path to return parks the value on the overflow list",
                  "enqueue blocks %s" % enq,
                  "a path from the Full edge of the push at bb%d returns (bb%s) without enqueueing on `%s`" % (p, wit, field),
                  extra="push%d" % pushes.index(p))


def rule_replay_keeps(ctx, facts, rule):
    """A parked command that still does not fit goes back onto the overflow list (send and force_send)."""
    field = overflow_field(facts)
    prov = Prov(facts)
    n = 0
    for name in ("send", "force_send"):
        fn = facts.fn("%s::<T>::%s" % (SENDER, name))
        if fn is None or field is None:
            continue
        ops = classify_ops(fn, prov, field)
        enq = [b for b, role, _, _ in ops if role == "enq"]
        for p in ring_pushes(fn):
            src = prov.of_operand(fn, fn.term(p)["args"][1])
            if not has_origin(src, kind="param", key=1, path_suffix=("." + field,)):
                continue
            n += 1
            sws = result_switch(fn, p)
            ok = bool(sws)
            wit = None
            for sw in sws:
                err = fn.variant_edges(sw, ["Err"])
                m, w = fn.must_pass([(a, d) for a, d, _ in err], enq) if err else (False, None)
                if not m:
                    ok, wit = False, w
            ctx.check(ok, rule, fn.path, fn.loc(p),
                      "%s: a replayed command that meets a full ring is put back on the overflow list (finish/cancel signals are never dropped)" % name,
                      "re-enqueue blocks %s" % enq,
                      "the result of pushing a parked command is %s: the parked CommitCollect/DropCollect is lost" % (
                          "not matched (e.g. map_err(..)?)" if not sws else "matched but a Full path returns at bb%s without re-enqueueing" % wit),
                      extra="replay-" + name)
    ctx.floor(rule, SENDER, n, 2, "ring pushes of replayed commands")


def rule_sender_drop(ctx, facts, rule):
    """Thread exit flushes the overflow list into the ring, oldest first."""
    field = overflow_field(facts)
    imp = facts.implements(r"^fastrace::util::spsc::Sender<T>$", r"ops::drop::Drop$")
    if not imp:
        ctx.fail(rule, SENDER, "-", "Sender<T> implements Drop (overflow list flushed at thread exit)",
                 "anchor lost: no Drop impl for Sender<T>: parked commit/drop commands die with the thread", extra="impl")
        return
    fn = ctx.need_fn(facts, "<fastrace::util::spsc::Sender<T> as core::ops::drop::Drop>::drop", rule)
    if fn is None or field is None:
        return
    prov = Prov(facts)
    ops = classify_ops(fn, prov, field)
    deq = [(b, end, c) for b, role, end, c in ops if role == "deq"]
    pushes = ring_pushes(fn)
    # "oldest first" = starting at the end send / force_send replay from (the front, unless the list is kept the other way round)
    D = replay_ends(facts, prov, field)
    oldest_end = next(iter(D)) if len(D) == 1 and next(iter(D)) in ("front", "back") else "front"
    whole = re.compile(r"::drain$|into_iter$|mem::take$")          # hands the whole list over, front to back
    fifo = bool(deq) and all(end == oldest_end or whole.search(c) for _, end, c in deq)
    ctx.check(fifo, rule, fn.path, fn.span, "Drop takes the parked commands oldest first",
              "dequeue ops %s, oldest end: %s" % ([(c.split("::")[-1], e) for _, e, c in deq], oldest_end),
              "dequeue ops %s, oldest end %s (table: %s)" % ([(c.split("::")[-1], e) for _, e, c in deq], oldest_end, TABLE_TEXT), extra="fifo")
    fed = False
    for p in pushes:
        src = prov.of_operand(fn, fn.term(p)["args"][1])
        if has_origin(src, kind="param", key=1, path_suffix=("." + field,)):
            fed = True
    rev = False
    for p in pushes:
        src = prov.of_operand(fn, fn.term(p)["args"][1])
        rev = rev or any(v[0] == "call" and re.search(r"Iterator>?::(rev|next_back|last)$|::(pop|pop_back)$", v[1]) for o in src for v in o.via)
    # internal iteration: `drain(..).for_each(|parked| { push(parked) })` -- the loop is for_each itself
    each = False
    for c in facts.closures_of(fn):
        cp = ring_pushes(c)
        if not cp:
            continue
        for hb in fn.calls_re(r"Iterator>?::(for_each|try_for_each)$", cleanup=False):
            t = fn.term(hb)
            cd = prov._closure_def(fn, t["args"][1]) if len(t["args"]) > 1 else None
            if not cd or cd[0] is not c:
                continue
            recv = prov.of_operand(fn, t["args"][0])
            from_field = has_origin(recv, kind="param", key=1, path_suffix=("." + field,))
            elem = all(any(o.kind == "param" and o.key == 2 for o in prov.of_operand(c, c.term(q)["args"][1])) for q in cp)
            if from_field and elem:
                each = True
                fed = True
                pushes = pushes or [hb]
                rev = rev or any(v[0] == "call" and re.search(r"Iterator>?::(rev|next_back|last)$|::(pop|pop_back)$", v[1]) for o in recv for v in o.via)
    # a list handed over whole comes front to back: that is oldest first iff the replay end is the front; a list kept the other
    # way round (replayed from the back) has to be reversed
    uses_whole = any(whole.search(c) for _, _, c in deq)
    want_rev = uses_whole and oldest_end == "back"
    ctx.check(rev == want_rev if uses_whole else not rev or oldest_end == "back", rule, fn.path, fn.span,
              "the flush keeps the parked order (oldest first: no rev()/next_back()/pop() on a list replayed from the front)",
              "replay end %s, reversing adaptor: %s" % (oldest_end, rev),
              "the elements pushed at thread exit come %s a reversing adaptor although send / force_send replay from the %s" % (
                  "through" if rev else "without", oldest_end), extra="no-rev")
    ctx.check(fed, rule, fn.path, fn.span, "every parked command is pushed to the ring",
              "Producer::push fed from `%s`" % field,
              "no Producer::push in Drop receives elements of `%s`" % field, extra="push")
    # every element taken is pushed: the push lies on the loop (dominated by the Some edge of next/pop)
    if pushes:
        ctx.check(each or all(fn.on_cycle(p) or len(deq) == 0 for p in pushes), rule, fn.path, fn.loc(pushes[0]),
                  "the push is inside the loop over the parked commands", "", "push is not on the drain loop", extra="loop")


def rule_order(ctx, facts, rule):
    """The overflow list preserves order (send and force_send)."""
    field = overflow_field(facts)
    if field is None:
        ctx.fail(rule, SENDER, "-", "Sender<T> has exactly one growable container of T (the overflow list)",
                 "anchor lost", extra="field")
        return
    prov = Prov(facts)
    n = 0
    for name in ("send", "force_send"):
        fn = ctx.need_fn(facts, "%s::<T>::%s" % (SENDER, name), rule)
        if fn is None:
            continue
        n += 1
        ops = classify_ops(fn, prov, field)
        deq = [(b, end, c) for b, role, end, c in ops if role == "deq"]
        enq = [(b, end, c) for b, role, end, c in ops if role == "enq"]
        deq_ends = {e for _, e, _ in deq}
        # classify enqueues by what they enqueue: the new value (param 2) or a dequeued element
        new_enq, re_enq = [], []
        for b, end, c in enq:
            src = prov.of_operand(fn, enq_value(fn, b))
            is_new = has_origin(src, kind="param", key=2)
            from_list = has_origin(src, kind="param", key=1, path_suffix=("." + field,))
            if is_new:
                new_enq.append((b, end))
            if from_list:
                re_enq.append((b, end))
        unknown = [c for _, e, c in deq + enq if e.startswith("unknown") or e == "unordered"]
        if unknown:
            ctx.fail(rule, fn.path, fn.span, "overflow-list operations are in the accepted-idiom table",
                     "unrecognised idiom %s (table: %s)" % (unknown, TABLE_TEXT), extra="idiom")
        if deq:
            # (a) FIFO: new values enter at the end opposite to the one replay takes from
            if new_enq:
                bad = [(b, e) for b, e in new_enq if e in deq_ends]
                ctx.check(not bad, rule + "a", fn.path, fn.loc(new_enq[0][0]),
                          "replay dequeues from the end opposite to where new commands are parked (FIFO)",
                          "dequeue end %s, new values parked at %s" % (sorted(deq_ends), sorted({e for _, e in new_enq})),
                          "new commands are parked at the `%s` end and replayed from the `%s` end: the overflow list is "
                          "LIFO, so a parked DropCollect can be overtaken by the CommitCollect parked after it"
                          % (sorted({e for _, e in new_enq}), sorted(deq_ends)), extra="fifo")
            # (b) an element that could not be replayed returns to the end it was taken from
            for b, e in re_enq:
                ctx.check(e in deq_ends, rule + "b", fn.path, fn.loc(b),
                          "an element that was dequeued and could not be pushed goes back to the dequeue end",
                          "re-insert at %s" % e, "re-inserted at `%s` but taken from `%s`" % (e, sorted(deq_ends)),
                          extra="reinsert%d" % b if len(re_enq) > 1 else "reinsert")
            # (c) the ring push of the *new* value happens only when nothing is parked
            for p in ring_pushes(fn):
                src = prov.of_operand(fn, fn.term(p)["args"][1])
                if not has_origin(src, kind="param", key=2):
                    continue
                empty_edges = set()
                for (db, _, _) in deq:
                    for sw in result_switch(fn, db):
                        empty_edges |= set(fn.variant_edges(sw, ["None"]))
                for b in fn.calls_re(r"::is_empty$"):
                    s = prov.of_operand(fn, fn.term(b)["args"][0])
                    if has_origin(s, kind="param", key=1, path_suffix=("." + field,)):
                        d = fn.term(b)["dest"]["l"]
                        for sb in range(len(fn.blocks)):
                            info = fn.switch_info(sb)
                            if info and info.get("kind") == "call" and info["call_block"] == b:
                                empty_edges |= set(fn.switch_edges(sb, True))
                g = fn.guarded([p], empty_edges)
                ctx.check(g, rule + "c", fn.path, fn.loc(p),
                          "the new command is pushed to the ring only when the overflow list is empty",
                          "guarded by %s" % sorted((a, b) for a, b, _ in empty_edges),
                          "a path reaches Producer::push(value) at bb%d without crossing an `overflow list empty` edge: "
                          "after a failed replay a slot freed by the consumer lets the new command overtake parked ones" % p,
                          extra="overtake")
        else:
            ctx.fail(rule, fn.path, fn.span, "%s replays the overflow list before sending" % name,
                     "no dequeue from `%s` found" % field, extra="replay")
    ctx.floor(rule, SENDER, n, 2, "send functions")
    # the two send paths and the exit flush agree on the dequeue end, and it is opposite to where new commands are parked
    ends = {}
    parked = set()
    for name in ("send", "force_send"):
        fn = facts.fn("%s::<T>::%s" % (SENDER, name))
        if fn is None:
            continue
        ops = classify_ops(fn, prov, field)
        ends[name] = sorted({e for b, role, e, c in ops if role == "deq"})
        for b, role, e, c in ops:
            if role == "enq" and has_origin(prov.of_operand(fn, enq_value(fn, b)), kind="param", key=2):
                parked.add(e)
    all_deq = {e for v in ends.values() for e in v}
    ctx.check(len(all_deq) == 1 and not (all_deq & parked) and bool(parked), rule + "a", SENDER, "-",
              "send and force_send replay from the same end of the overflow list, opposite to where force_send parks new commands",
              "dequeue ends %s, parking end %s" % (ends, sorted(parked)),
              "dequeue ends %s, new commands parked at %s: commands parked by force_send are replayed out of order by one of the "
              "send paths" % (ends, sorted(parked)), extra="fifo-all")


def rule_parked_visible_to_collector(ctx, facts, rule):
    """A finish/cancel signal that force_send had to park must reach the collector without a further tracing call by the
    same thread (the thread may stay alive and idle). Structurally: the container force_send parks into is also
    drained by code reachable from the collector side (handle_commands), or force_send does not park at all."""
    field = overflow_field(facts)
    prov = Prov(facts)
    fs = facts.fn(SENDER + "::<T>::force_send")
    if fs is None or field is None:
        ctx.fail(rule, SENDER, "-", "force_send / overflow list exist", "anchor lost", extra="parked-anchor")
        return
    parks = [b for b, role, _, _ in classify_ops(fs, prov, field) if role == "enq"]
    if not parks:
        ctx.ok(rule, SENDER, fs.span, "force_send does not park commands", "", extra="parked-owner-only")
        return
    readers = set()
    for g in facts.fns.values():
        if g.crate != "fastrace":
            continue
        if any(role == "deq" for _, role, _, _ in classify_ops(g, prov, field)):
            readers.add(g.path)
    coll = facts.reachable(["fastrace::collector::global_collector::GlobalCollector::handle_commands"])
    shared = sorted(r for r in readers if r in coll)
    ctx.check(bool(shared), rule, SENDER, fs.span,
              "a parked finish/cancel signal becomes visible to the collector without another tracing call of the parking thread",
              "overflow list drained by collector-side code: %s" % shared,
              "`%s` is read only by %s, none of which the collector can reach: a DropCollect/CommitCollect parked while the ring was "
              "full waits until the SAME thread traces again or exits -- thread B (queue full) cancels a root and goes idle, thread "
              "A finishes the root: the collector reads A's CommitCollect while B's DropCollect is still parked and delivers the "
              "cancelled trace; a parked CommitCollect likewise keeps its trace's collector alive" % (field, sorted(readers)),
              extra="parked-owner-only")
