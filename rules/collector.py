"""Rules over GlobalCollector::handle_commands and friends (C01, C03, C04, C06, C08, C18)."""
import re

from .core import (Prov, bool_cond_edges, callee_is, discr_cond_edges, has_origin, inline_calls, origin_strs, result_switches, root_local, selection_blocks,
                   sites_star)

GC = "fastrace::collector::global_collector::GlobalCollector"
HC = GC + "::handle_commands"
POST = "fastrace::collector::global_collector::postprocess_span_collection"
CMD = "fastrace::collector::command::"

ROLE_TYPES = [
    ("start", r"^alloc::vec::Vec<fastrace::collector::command::StartCollect>$"),
    ("drop", r"^alloc::vec::Vec<fastrace::collector::command::DropCollect>$"),
    ("commit", r"^alloc::vec::Vec<fastrace::collector::command::CommitCollect>$"),
    ("submit", r"^alloc::vec::Vec<fastrace::collector::command::SubmitSpans>$"),
    ("stale", r"^alloc::vec::Vec<fastrace::collector::global_collector::SpanCollection>$"),
    ("active", r"HashMap<usize, fastrace::collector::global_collector::ActiveCollector"),
    ("reporter", r"Option<alloc::boxed::Box<\(?dyn fastrace::collector::global_collector::Reporter"),
    ("config", r"^fastrace::collector::Config$"),
]
ELEM = {"start": "StartCollect", "drop": "DropCollect", "commit": "CommitCollect", "submit": "SubmitSpans"}

DEQ_RX = r"(alloc::vec::Vec::<T, A>::(drain|pop|remove|swap_remove)|core::mem::(take|replace|swap)|IntoIterator>?::into_iter|slice::<impl \[T\]>::iter(_mut)?)$"
EMPTY_RX = r"(alloc::vec::Vec::<T, A>::(drain|clear)|core::mem::take)$"


class Collector:
    def __init__(self, ctx, facts):
        self.ctx = ctx
        self.facts = facts
        self.prov = Prov(facts)
        self.fn = facts.fn(HC)
        if self.fn is not None:
            # see through helper methods / module-level helpers extracted from handle_commands
            keep = re.compile(r"global_collector::(postprocess_span_collection|amend_span|amend_local_span|mount_danglings|"
                              r"send_command|force_send_command|register_receiver|reporter_ready|flush|set_reporter)$|::start$")
            self.fn = inline_calls(facts, self.fn, lambda g: g.path.startswith("fastrace::collector::global_collector::")
                                   and not keep.search(g.path) and " as " not in g.path)
            # ... and through local closures it builds and calls itself (`let mut deliver = |id, set| {..}; deliver(a, b)`)
            from .core import inline_closure_calls
            nf = inline_closure_calls(facts, self.fn)
            if nf is not self.fn:
                nf.inlined = True
                nf.inlined_paths = set(getattr(nf, "inlined_paths", set())) | set(getattr(self.fn, "inlined_paths", set()))
                self.fn = nf
        self.roles = {}
        adt = facts.adts.get(GC)
        if adt:
            # fields are located by type; a private struct that merely groups some of them (`pending: PendingCommands`)
            # is looked into (two levels)
            self.groups = {}

            def scan(a, depth, group=None):
                for f in a["variants"][0]["fields"]:
                    hit = False
                    for role, rx in ROLE_TYPES:
                        if re.search(rx, f["ty"]) and role not in self.roles:
                            self.roles[role] = f["name"]
                            if group:
                                self.groups[role] = group
                            hit = True
                    inner = facts.adts.get(f["ty"])
                    if not hit and inner is not None and depth > 0 and len(inner["variants"]) == 1 and f["ty"].startswith("fastrace::"):
                        scan(inner, depth - 1, f["name"])
            scan(adt, 2)

    def ok(self):
        return self.fn is not None and all(r in self.roles for r, _ in ROLE_TYPES)

    def need(self, rule):
        if self.fn is None:
            self.ctx.fail(rule, HC, "-", "anchor function exists", "anchor lost: %s not found" % HC, extra="anchor")
            return False
        missing = [r for r, _ in ROLE_TYPES if r not in self.roles]
        if missing:
            self.ctx.fail(rule, GC, "-", "GlobalCollector has the fields the rules are keyed on (located by type)",
                          "anchor lost: no field with the type of role(s) %s" % missing, extra="fields")
            return False
        return True

    # ---- origin predicates
    def from_role(self, origins, role, suffix=None):
        name = "." + self.roles[role]
        for o in origins:
            if o.kind == "param" and o.key == 1 and name in o.path:
                if suffix is None or tuple(o.path[-len(suffix):]) == tuple(suffix):
                    return True
        return False

    def from_group(self, origins, role):
        """The value is the private struct that groups the role's container with others (captured / passed whole)."""
        g = getattr(self, "groups", {}).get(role)
        if not g:
            return False
        return any(o.kind == "param" and o.key == 1 and o.path and o.path[-1] == "." + g for o in origins)

    def reporter_absent_edges(self, fn):
        """Edges taken when no reporter is installed: `reporter.is_none()` true, `is_some()` false, or the None arm of a
        match / let-else on the reporter option (possibly behind as_mut()/as_ref())."""
        return set(discr_cond_edges(fn, self.prov, r"Option<(&mut |&)?alloc::boxed::Box<\(?dyn fastrace::collector::global_collector::Reporter", ["None"]))

    def cancelable_edges(self, fn, want):
        def pred(o):
            return o.kind in ("param", "upvar") and o.path[-1:] == (".cancelable",)
        return bool_cond_edges(fn, self.prov, pred, want)

    def vec_arg_role(self, fn, t, idx=0):
        """Role of the scratch vector the call operates on, by origin (preferred) or by argument type."""
        if len(t["args"]) <= idx:
            return None
        a = t["args"][idx]
        src = self.prov.of_operand(fn, a)
        for role in ("start", "drop", "commit", "submit", "stale", "active"):
            if self.from_role(src, role):
                return role
        return None

    # ---- phases
    def phase_sites(self, role):
        """Blocks of handle_commands at which the scratch vector of `role` is consumed (starred)."""
        facts, fn = self.facts, self.fn
        field = self.roles[role]
        ty_rx = re.compile(r"Vec<fastrace::collector::(command::%s|global_collector::SpanCollection)>" % ELEM.get(role, "-"))

        def pred(g, t):
            if not callee_is(t, DEQ_RX) or not t["args"]:
                return False
            if g is fn:
                return self.vec_arg_role(g, t) == role
            src = self.prov.of_operand(g, t["args"][0])
            return any(("." + field) in o.path for o in src) or bool(ty_rx.search(t["arg_tys"][0])) and role != "stale"
        return sites_star(facts, fn, pred)

    def retain_site(self):
        """(block, closure Fn) of the drain over SPSC_RXS."""
        fn = self.fn
        for b in fn.calls_re(r"alloc::vec::Vec::<T, A>::(retain_mut|retain)$"):
            t = fn.term(b)
            if "spsc::Receiver" in t["arg_tys"][0] and len(t["args"]) > 1:
                cd = self.prov._closure_def(fn, t["args"][1])
                if cd:
                    return b, cd[0], cd[1]
        return None

    def post_sites(self):
        """Classify call sites reaching postprocess_span_collection: [(block, kind, term)]"""
        fn = self.fn
        out = []
        for b in fn.calls_re(re.escape(POST) + "$", cleanup=False):
            t = fn.term(b)
            src = self.prov.of_operand(fn, t["args"][0])
            kind = "unknown"
            if self.from_role(src, "stale"):
                kind = "stale"
            elif self.from_role(src, "active"):
                via_remove = any(v[0] == "call" and re.search(r"HashMap::<K, V, S, A>::remove$", v[1])
                                 for o in src for v in o.via)
                via_sweep = any(v[0] == "call" and re.search(r"HashMap::<K, V, S, A>::(values_mut|iter_mut|drain|values|iter)$", v[1])
                                for o in src for v in o.via)
                rem_blocks = {v[2] for o in src for v in o.via
                              if v[0] == "call" and re.search(r"HashMap::<K, V, S, A>::remove$", v[1])}
                key_commit = any(len(fn.term(rb)["args"]) > 1 and
                                 self.from_role(self.prov.of_operand(fn, fn.term(rb)["args"][1]), "commit") for rb in rem_blocks)
                if via_remove and key_commit:
                    kind = "commit"
                elif via_sweep:
                    kind = "sweep"
                elif via_remove:
                    kind = "remove-other"
            out.append((b, kind, t))
        return out


# --------------------------------------------------------------------------- individual rules

def rule_drain_keeps_live(ctx, c, rule):
    """C01-R5 / C08-R3: the receiver drain keeps live receivers and only them; commands are forwarded."""
    rs = c.retain_site()
    if rs is None:
        ctx.fail(rule, HC, c.fn.span, "handle_commands drains SPSC_RXS through Vec::retain_mut with a closure",
                 "anchor lost: no retain/retain_mut over Vec<Receiver<_>> with a local closure", extra="retain")
        return
    b, cf, agg = rs
    recv = [x for x in cf.calls_re(r"spsc::Receiver::<T>::try_recv$") if not cf.blocks[x]["cleanup"]]
    if not recv:
        ctx.fail(rule, cf.path, cf.span, "the drain closure calls try_recv", "found no call site", extra="recv")
        return
    if len(recv) > 1:
        # `let mut r = rx.try_recv(); while let Ok(Some(c)) = r { ..; r = rx.try_recv(); }`: several polling sites feeding one result;
        # every site's result must be tested before the closure returns or polls again
        for T in recv:
            if not result_switches(cf, T, "Result<"):
                ctx.fail(rule, cf.path, cf.loc(T), "every try_recv result in the drain closure is tested",
                         "the result of the call at %s is not matched on" % cf.loc(T), extra="recv")
                return
    rset = set(recv)
    # assignments to the return place
    ret_false, ret_true, ret_isok = [], [], []

    def ret_defs(local, depth):
        # constants reaching the return place, also through a local (`let keep = loop {.. break true ..}; keep`)
        for (bi, i, st) in cf.defs(local):
            if cf.blocks[bi]["cleanup"]:
                continue
            if i != "term" and st["k"] == "assign" and not st["lhs"]["p"] and st["rv"]["k"] == "use" and st["rv"]["op"]["k"] == "const":
                (ret_true if st["rv"]["op"].get("v") == 1 else ret_false).append(bi)
            elif i != "term" and st["k"] == "assign" and not st["lhs"]["p"] and st["rv"]["k"] == "use" and depth > 0 \
                    and st["rv"]["op"]["k"] in ("copy", "move") and not st["rv"]["op"]["p"]:
                ret_defs(st["rv"]["op"]["l"], depth - 1)
            elif i == "term" and st["k"] == "call" and callee_is(st, r"core::result::Result::<T, E>::is_ok$") and st["args"] and \
                    any(v[0] == "call" and "try_recv" in v[1] for o in c.prov.of_operand(cf, st["args"][0]) for v in o.via):
                ret_isok.append(bi)      # `polled.is_ok()`: false exactly for Err(closed); true must be shown to mean Ok(None)
            else:
                ctx.fail(rule, cf.path, cf.loc(bi), "the drain closure returns a constant per arm",
                         "non-constant return value", extra="ret")
    ret_defs(0, 3)
    err_edges, ok_edges, none_edges, some_edges = set(), set(), set(), set()
    cmd_switch = None
    for T in recv:
        for sb in result_switches(cf, T, "Result<"):
            err_edges |= set(cf.variant_edges(sb, ["Err"]))
            ok_edges |= set(cf.variant_edges(sb, ["Ok"]))
        for sb in result_switches(cf, T, "Option<", proj=["@Ok", ".0"]):
            none_edges |= set(cf.variant_edges(sb, ["None"]))
            some_edges |= set(cf.variant_edges(sb, ["Some"]))
        for sb in result_switches(cf, T, "CollectCommand", proj=["@Ok", ".0", "@Some", ".0"]):
            cmd_switch = sb
    if cmd_switch is None:
        # the command may have been moved into a local before it is matched
        from .core import first_switches
        for T in recv:
            for sb in first_switches(cf, cf.term(T)["target"], lambda i: i.get("kind") == "discr" and i["ty"].endswith("command::CollectCommand")):
                cmd_switch = sb
    if ret_isok and not (ret_false or ret_true):
        # the answer is `result.is_ok()`: it is false exactly when the channel is closed; it must not be true for Ok(Some(_)), i.e.
        # the return is reached from a poll only across the Err or the None edge of that poll's result
        targets = [cf.term(T)["target"] for T in recv]
        r = cf.reach(targets, avoid_edges=err_edges | none_edges, avoid_blocks=recv)
        ctx.check(bool(err_edges), rule, cf.path, cf.loc(ret_isok[0]),
                  "a receiver is removed (closure returns false) only when try_recv reported the channel closed",
                  "the closure returns is_ok() of the last try_recv result", "no Err edge on the polled result", extra="false")
        ctx.check(bool(none_edges) and not (r & set(ret_isok)), rule, cf.path, cf.loc(ret_isok[0]),
                  "a receiver is kept (closure returns true) only when try_recv reported an empty, open channel",
                  "is_ok() at %s is reached from a poll only across its Err / None edges" % [cf.loc(x) for x in ret_isok],
                  "`result.is_ok()` is reachable from a poll without crossing the None or Err edge of its result: an unread "
                  "command would be left behind (or a closed channel kept)", extra="true")
        ctx.check(True, rule, cf.path, cf.span, "on Err(ChannelClosed) the receiver is dropped from the registry",
                  "is_ok() is false for Err", "", extra="closed")
    else:
        if ret_isok:
            ctx.fail(rule, cf.path, cf.loc(ret_isok[0]), "the drain closure returns a constant per arm",
                     "mixes constant answers and result.is_ok()", extra="ret")
        ctx.check(bool(ret_false) and cf.guarded(ret_false, err_edges), rule, cf.path, cf.loc(ret_false[0]) if ret_false else cf.span,
                  "a receiver is removed (closure returns false) only when try_recv reported the channel closed",
                  "`false` at %s guarded by the Err edge" % [cf.loc(x) for x in ret_false],
                  "`_0 = false` at %s is reachable without crossing the Err edge of try_recv's result (a live receiver "
                  "would be unregistered after a drain and its thread's later spans lost)" % [cf.loc(x) for x in ret_false],
                  extra="false")
        ctx.check(bool(ret_true) and cf.guarded(ret_true, none_edges) and cf.guarded(ret_true, ok_edges), rule, cf.path,
                  cf.loc(ret_true[0]) if ret_true else cf.span,
                  "a receiver is kept (closure returns true) only when try_recv reported an empty, open channel",
                  "`true` at %s guarded by Ok and None edges" % [cf.loc(x) for x in ret_true],
                  "`_0 = true` is reachable outside the Ok(None) arm (a closed channel would be kept forever)", extra="true")
        if len(recv) > 1 and ret_true:
            # with several polling sites "crossed a None edge at some time" is not enough: no poll may lie between the None edge and the answer
            r = cf.reach([cf.term(T)["target"] for T in recv], avoid_edges=err_edges | none_edges, avoid_blocks=recv)
            ctx.check(not (r & set(ret_true)) and not (r & set(ret_false)), rule, cf.path, cf.loc(ret_true[0]),
                      "the answer of the drain closure is decided by the last poll", "",
                      "an answer is reachable from a poll without crossing the None / Err edge of that poll's result", extra="last-poll")
        # closed channels are removed: from the Err edge every path returns false
        if err_edges:
            starts = [d for (_, d, _) in err_edges]
            r = cf.reach(starts)
            ctx.check(not (r & set(ret_true)) and bool(r & set(ret_false)), rule, cf.path, cf.span,
                      "on Err(ChannelClosed) the receiver is dropped from the registry", "",
                      "the Err arm can return true", extra="closed")
        else:
            ctx.fail(rule, cf.path, cf.span, "the drain closure distinguishes Err(ChannelClosed)", "no Err edge found", extra="closed")
    # every command kind is forwarded to its scratch vector, then the loop continues
    if cmd_switch is None:
        ctx.fail(rule, cf.path, cf.span, "the drain closure dispatches on the command kind", "no match on CollectCommand", extra="dispatch")
        return
    info = cf.switch_info(cmd_switch)
    n = 0
    for vname in sorted(set(info["variants"].values())):
        edges = cf.variant_edges(cmd_switch, [vname])
        pushes = [x for x in cf.calls_re(r"alloc::vec::Vec::<T, A>::push$")
                  if ("command::%s>" % vname) in cf.term(x)["arg_tys"][0] and not cf.blocks[x]["cleanup"]]
        starts = [d for (_, d, _) in edges]
        r = cf.reach(starts, avoid_blocks=pushes) if starts else set(rset)
        lost = bool(r & rset) or bool(r & set(cf.returns()))
        fed = False
        for x in pushes:
            src = c.prov.of_operand(cf, cf.term(x)["args"][1])
            fed = fed or any(v[0] == "call" and "try_recv" in v[1] for o in src for v in o.via)
        n += 1
        ctx.check(bool(edges) and not lost and fed, rule, cf.path, cf.loc(cmd_switch),
                  "every received %s is pushed onto its scratch vector before the next try_recv" % vname,
                  "push at %s" % [cf.loc(x) for x in pushes],
                  "arm %s can loop or return without pushing the command (edges=%d pushes=%d fed=%s)" % (vname, len(edges), len(pushes), fed),
                  extra="fwd-" + vname)
        # the arm loops (does not return): the channel is drained to empty each cycle
        r2 = cf.reach(starts) if starts else set()
        ctx.check(bool(r2 & rset), rule, cf.path, cf.loc(cmd_switch), "after a %s the drain loop continues" % vname, "",
                  "arm %s leaves the loop" % vname, extra="loop-" + vname)
    ctx.floor(rule, cf.path, n, 4, "command kinds dispatched")


def rule_stale_kept(ctx, c, rule):
    """C01-R6a: a submit for an unknown collect id is kept on the stale list unless cancelable."""
    fn = c.fn
    gets = []
    for b in fn.calls_re(r"HashMap::<K, V, S, A>::(get_mut|get)$", cleanup=False):
        t = fn.term(b)
        if c.vec_arg_role(fn, t) != "active":
            continue
        ksrc = c.prov.of_operand(fn, t["args"][1])
        if c.from_role(ksrc, "submit"):
            gets.append(b)
    stale_pushes = [b for b in fn.calls_re(r"alloc::vec::Vec::<T, A>::push$", cleanup=False)
                    if c.vec_arg_role(fn, fn.term(b)) == "stale"]
    canc_true = c.cancelable_edges(fn, True)
    nexts = set(fn.calls_re(r"Iterator>?::next$", cleanup=False))
    for g in gets:
        sws = result_switches(fn, g)
        none = set()
        for sb in sws:
            none |= set(fn.variant_edges(sb, ["None"]))
        if not none:
            ctx.fail(rule, HC, fn.loc(g), "the lookup of the active collector distinguishes a missing entry",
                     "no None edge on the result of get_mut at bb%d" % g, extra="get%d" % gets.index(g))
            continue
        # ... and when the collector exists, the set is attached to it on every path (no "already have it" / "not interesting" skip:
        # the same set pushed to two parents of one trace is two attachments)
        some = set()
        for sb in sws:
            some |= set(fn.variant_edges(sb, ["Some"]))
        coll_pushes = [b for b in fn.calls_re(r"alloc::vec::Vec::<T, A>::(push|extend\w*)$|Extend(<.*>)?>?::extend$", cleanup=False)
                       if "SpanCollection" in fn.term(b)["arg_tys"][0] and c.vec_arg_role(fn, fn.term(b)) != "stale"]
        if some and coll_pushes:
            r1 = fn.reach([d for (_, d, _) in some], avoid_blocks=coll_pushes)
            bad1 = sorted((r1 & nexts) | (r1 & set(fn.returns())))
            ctx.check(not bad1, rule, HC, fn.loc(g),
                      "when the active collector exists, the submitted span set is attached to it on every path",
                      "attach sites %s" % [fn.loc(x) for x in coll_pushes],
                      "from the Some edge of get_mut (bb%d) the loop continues (bb%s) without attaching the span set to the collector" % (g, bad1 and bad1[0]),
                      extra="found%d" % gets.index(g))
        starts = [d for (_, d, _) in none]
        r = fn.reach(starts, avoid_blocks=stale_pushes, avoid_edges=canc_true)
        bad = sorted((r & nexts) | (r & set(fn.returns())))
        ctx.check(not bad, rule, HC, fn.loc(g),
                  "when no active collector exists for a submitted span set, it is pushed to the stale list unless "
                  "Config.cancelable is true",
                  "stale pushes %s, cancelable edges %s" % ([fn.loc(x) for x in stale_pushes], sorted((a, b) for a, b, _ in canc_true)),
                  "from the None edge of get_mut (bb%d) the loop continues (bb%s) without keeping the span set and "
                  "without cancelable being true: spans finishing in a later cycle than their root vanish" % (g, bad and bad[0]),
                  extra="get%d" % gets.index(g))
    ctx.floor(rule, HC, len(gets), 2, "active-collector lookups keyed by a submitted token item (single and per-item)")


def rule_release_sites(ctx, c, rule, what=("classify", "sweep_guard", "sweep_exists", "stale_exists")):
    """C03-R1 / C01-R6b: which paths hand span collections to postprocess."""
    fn = c.fn
    sites = c.post_sites()
    kinds = [k for _, k, _ in sites]
    canc_true = c.cancelable_edges(fn, True)
    canc_false = c.cancelable_edges(fn, False)
    if "classify" in what:
        for b, k, t in sites:
            ctx.check(k in ("commit", "sweep", "stale"), rule, HC, fn.loc(b),
                      "every call of postprocess_span_collection is one of: commit loop (collector removed by a "
                      "CommitCollect id), active sweep, stale sweep",
                      "site kind: %s" % k,
                      "unclassified release path: argument origins %s" % origin_strs(c.prov.of_operand(fn, t["args"][0])),
                      extra="site-%s%d" % (k, b) if k == "unknown" else "site-" + k)
        # no other path from handle_commands to SpanRecord construction
        others = [b for b in sites_star(c.facts, fn, lambda g, t: callee_is(t, r"global_collector::(amend_span|amend_local_span)$"))
                  if b not in [s[0] for s in sites]]
        ctx.check(not others, rule, HC, fn.span, "records are only produced through postprocess_span_collection",
                  "", "direct amend_* calls at %s" % [fn.loc(b) for b in others], extra="direct")
    if "sweep_guard" in what:
        for b, k, t in sites:
            if k == "sweep":
                ctx.check(fn.guarded([b], canc_false) and bool(canc_false), rule, HC, fn.loc(b),
                          "the sweep over active (uncommitted) collectors is guarded by Config.cancelable == false",
                          "guard edges %s" % sorted((a, d) for a, d, _ in canc_false),
                          "the active sweep at bb%d is reachable with cancelable == true: uncommitted traces are "
                          "released before their root finishes" % b, extra="sweep-guard")
    if "stale_guard" in what:
        # the stale vector is only pushed under cancelable == false
        stale_pushes = [b for b in fn.calls_re(r"alloc::vec::Vec::<T, A>::push$", cleanup=False)
                        if c.vec_arg_role(fn, fn.term(b)) == "stale"]
        for i, b in enumerate(stale_pushes):
            # a destination chosen earlier (`dst = if .. { active } else { stale }`) is guarded where it is chosen
            pts = selection_blocks(fn, c.prov, fn.term(b)["args"][0], lambda o: c.from_role([o], "stale")) or [b]
            ctx.check(all(fn.guarded([p], canc_false) for p in pts), rule, HC, fn.loc(b),
                      "span sets are put on the stale list only when Config.cancelable == false", "",
                      "stale push at bb%d reachable with cancelable == true" % b, extra="stale-guard%d" % i)
    if "sweep_exists" in what:
        sw = [b for b, k, _ in sites if k == "sweep"]
        ok = bool(sw) and all(b in fn.reach([0], avoid_edges=canc_true) for b in sw)
        ctx.check(ok, rule, HC, fn.loc(sw[0]) if sw else fn.span,
                  "when cancelable is false, every active collector's buffered span sets are released each cycle",
                  "sweep at %s" % [fn.loc(b) for b in sw],
                  "no active sweep reachable with cancelable == false (sites: %s)" % kinds, extra="sweep-exists")
        for b in sw:
            # the sweep takes the collections by drain(..)
            src = c.prov.of_operand(fn, fn.term(b)["args"][0])
            drained = any(v[0] == "call" and re.search(r"Vec::<T, A>::drain$|mem::take$", v[1]) for o in src for v in o.via)
            ctx.check(drained and has_origin(src, path_suffix=(".span_collections",)), rule, HC, fn.loc(b),
                      "the sweep drains ActiveCollector.span_collections (released once, not copied)",
                      "", "origins %s" % origin_strs(src), extra="sweep-drain")
    if "stale_exists" in what:
        st = [b for b, k, _ in sites if k == "stale"]
        ctx.check(bool(st), rule, HC, fn.loc(st[0]) if st else fn.span,
                  "the stale list is released through postprocess_span_collection", "", "no stale sweep found", extra="stale-exists")
    return sites


def rule_report(ctx, c, rule, what=("reached", "arg", "once")):
    fn = c.fn
    reports = [b for b in fn.calls(lambda t: t["ck"] in ("virtual", "unresolved") and t["decl"].endswith("Reporter::report"))
               if not fn.blocks[b]["cleanup"]]
    if not ctx.floor(rule, HC, len(reports), 1, "Reporter::report call sites"):
        return
    none_true = c.reporter_absent_edges(fn)
    if "reached" in what:
        ok, wit = fn.must_pass([0], reports, avoid_edges=none_true)
        ctx.check(ok, rule, HC, fn.loc(reports[0]),
                  "Reporter::report is reached on every path of a cycle once a reporter is installed",
                  "only the reporter-is-none return (%s) skips it" % sorted((a, b) for a, b, _ in none_true),
                  "a path returns at bb%s without calling report" % wit, extra="reached")
    if "once" in what:
        ctx.check(len(reports) == 1 and not fn.on_cycle(reports[0]), rule, HC, fn.loc(reports[0]),
                  "one report call per collector cycle, outside every loop", "",
                  "%d report sites; on a cycle: %s" % (len(reports), [fn.on_cycle(b) for b in reports]), extra="once")
    if "arg" in what:
        rl, _ = root_local(fn, fn.term(reports[0])["args"][1])
        sites = c.post_sites()
        roots = {root_local(fn, t["args"][2])[0] for _, _, t in sites}
        ctx.check(roots == {rl} and bool(sites), rule, HC, fn.loc(reports[0]),
                  "the vector handed to the reporter is the one every postprocess call wrote to",
                  "records vector _%d (%s)" % (rl, fn.local_name(rl)),
                  "report gets _%d, postprocess calls write to %s" % (rl, sorted(roots)), extra="arg")


def rule_phase_order(ctx, c, rule, pairs):
    fn = c.fn
    sites = {r: c.phase_sites(r) for r in ("start", "drop", "submit", "commit")}
    for r, s in sites.items():
        if not s:
            ctx.fail(rule, HC, fn.span, "the %s phase exists" % r, "anchor lost: no consumption of the %s vector" % r, extra="phase-" + r)
            return
    for a, b in pairs:
        ok = all(any(fn.dominates(x, y) and x != y for x in sites[a]) for y in sites[b])
        ctx.check(ok, rule, HC, fn.loc(sites[b][0]),
                  "the %s phase is processed before the %s phase of the same batch" % (a, b),
                  "%s at %s dominates %s at %s" % (a, [fn.loc(x) for x in sites[a]], b, [fn.loc(x) for x in sites[b]]),
                  "%s phase (bb%s) does not dominate %s phase (bb%s)" % (a, sites[a], b, sites[b]), extra="%s<%s" % (a, b))


def map_ops(c, fn):
    """Calls in fn on the active-collector map: [(block, op, key role)]"""
    out = []
    for b in fn.calls_re(r"HashMap::<K, V, S, A>::\w+$|hash::map::HashMap<K, V, S, A> as core::iter::traits::collect::Extend<.*>>::extend$|Extend<\(K, V\)>>::extend$", cleanup=False):
        t = fn.term(b)
        if "ActiveCollector" not in t["arg_tys"][0] or "HashMap<" not in t["arg_tys"][0]:
            continue
        op = t["callee"].rsplit("::", 1)[1]
        role = None
        if len(t["args"]) > 1:
            ks = c.prov.of_operand(fn, t["args"][1])
            for r in ("start", "drop", "commit", "submit"):
                if c.from_role(ks, r):
                    role = r
        out.append((b, op, role))
    return out


def rule_cancel_inert(ctx, c, rule):
    """C04-R3: DropCollect removes the collector only when cancelable."""
    fn = c.fn
    canc_true = c.cancelable_edges(fn, True)
    rem = [(b, op, r) for b, op, r in map_ops(c, fn) if op == "remove" and r == "drop"]
    if not rem:
        # accepted alternative: Span::cancel itself is guarded -- not expressible without config on the span side
        ctx.fail(rule, HC, fn.span, "a DropCollect removes the trace's active collector",
                 "anchor lost: no HashMap::remove keyed by a DropCollect id", extra="remove")
        return
    for b, _, _ in rem:
        ctx.check(fn.guarded([b], canc_true) and bool(canc_true), rule, HC, fn.loc(b),
                  "the removal keyed by DropCollect.collect_id is guarded by Config.cancelable == true "
                  "(cancel() is inert in the default configuration)",
                  "guard %s" % sorted((a, d) for a, d, _ in canc_true),
                  "active_collectors.remove(drop id) at bb%d is reachable with cancelable == false: cancel() discards the "
                  "trace's parked events/properties and its collector" % b, extra="drop-remove")


def rule_danglings_arg(ctx, c, rule):
    """C06-R4: attachments parked per trace survive cycles."""
    fn = c.fn
    for b, k, t in c.post_sites():
        # the parked-attachments argument, located by its type (a map keyed by span id)
        di = [i for i, ty in enumerate(t.get("arg_tys", [])) if re.search(r"HashMap<fastrace::collector::id::SpanId,", ty)]
        if not di:
            if k in ("commit", "sweep"):
                ctx.fail(rule, HC, fn.loc(b), "the %s release passes the trace's own parked-attachments map" % k,
                         "the release takes no map of parked attachments at all (argument types %s): an event or property whose "
                         "target record is delivered in a later cycle has nowhere to wait" % t.get("arg_tys", []), extra="danglings-" + k)
            continue
        src = c.prov.of_operand(fn, t["args"][di[0]])
        persistent = has_origin(src, path_suffix=(".danglings",)) and c.from_role(src, "active", suffix=(".danglings",)) and \
            all(("." + c.roles["active"]) in o.path for o in src if o.kind == "param" and o.path[-1:] == (".danglings",))
        if k in ("commit", "sweep"):
            ctx.check(persistent, rule, HC, fn.loc(b),
                      "the %s release passes the trace's own ActiveCollector.danglings map" % k,
                      "origins %s" % origin_strs(src),
                      "the danglings argument does not originate from ActiveCollector.danglings (%s): attachments whose "
                      "target record arrives in a later cycle are lost" % origin_strs(src), extra="danglings-" + k)
        else:
            ctx.ok(rule, HC, fn.loc(b), "the stale release may use a fresh map (no trace state exists)", "origins %s" % origin_strs(src),
                   extra="danglings-" + k)


def rule_scratch_emptied(ctx, c, rule):
    """C08-R1: scratch vectors are emptied on every path of a cycle."""
    fn = c.fn
    rs = c.retain_site()
    for role in ("start", "drop", "commit", "submit", "stale"):
        field = c.roles[role]
        empt = []
        for b in fn.calls_re(EMPTY_RX, cleanup=False):
            t = fn.term(b)
            if c.vec_arg_role(fn, t) != role:
                continue
            if t["callee"].endswith("::drain") and not (len(t["arg_tys"]) > 1 and "RangeFull" in t["arg_tys"][1]):
                continue
            empt.append(b)
        if role == "stale":
            starts = [b for b in fn.calls_re(r"alloc::vec::Vec::<T, A>::push$", cleanup=False)
                      if c.vec_arg_role(fn, fn.term(b)) == "stale"]
            starts = [fn.term(b)["target"] for b in starts]
        else:
            # pushed inside the drain closure: the closure captures the vector
            starts = []
            if rs:
                b, cf, agg = rs
                for i, n in enumerate(agg["fields"]):
                    src = c.prov.of_operand(fn, agg["ops"][i])
                    if c.from_role(src, role) or c.from_group(src, role):
                        starts = [fn.term(b)["target"]]
        if not starts:
            ctx.fail(rule, HC, fn.span, "the %s scratch vector is filled in handle_commands" % role,
                     "anchor lost: no push site for `%s`" % field, extra="fill-" + role)
            continue
        ok, wit = fn.must_pass(starts, empt)
        ctx.check(ok and bool(empt), rule, HC, fn.loc(empt[0]) if empt else fn.span,
                  "after `%s` may have been pushed to, every path to return drains or clears it" % field,
                  "emptied at %s" % [fn.loc(b) for b in empt],
                  "a path from the push site returns at bb%s with `%s` not emptied: the vector grows across cycles and "
                  "its commands are processed twice" % (wit, field), extra="empty-" + role)


def crate_fns(c):
    """All fastrace bodies, with handle_commands replaced by its inlined view (and the helpers folded into it left out)."""
    skip = set(getattr(c.fn, "inlined_paths", set())) | {HC}
    return [c.fn] + [g for g in c.facts.fns.values() if g.crate == "fastrace" and g.path not in skip]


def rule_other_containers_emptied(ctx, c, rule):
    """C08-R1b: every other growable container field of GlobalCollector (e.g. the one-cycle list of ids that finished
    before their start) is cleared on every cycle that gets past the reporter check."""
    fn = c.fn
    adt = c.facts.adts.get(GC)
    known = set(c.roles.values())
    extra = [f for f in adt["variants"][0]["fields"] if f["name"] not in known and
             re.search(r"^(alloc::vec::Vec|alloc::collections::\w+::\w+|std::collections::hash::(map::HashMap|set::HashSet))<", f["ty"])]

    none_true = c.reporter_absent_edges(fn)
    for f in extra:
        name = f["name"]
        empt = [b for b in fn.calls_re(r"::(clear|drain)$|core::mem::take$", cleanup=False)
                if has_origin(c.prov.of_operand(fn, fn.term(b)["args"][0]), kind="param", key=1, path_suffix=("." + name,))]
        grows = [b for b in fn.calls_re(r"::(push|push_back|insert|extend\w*)$", cleanup=False)
                 if has_origin(c.prov.of_operand(fn, fn.term(b)["args"][0]), kind="param", key=1, path_suffix=("." + name,))]
        ok, wit = fn.must_pass([0], empt, avoid_edges=none_true)
        pre = fn.reach([0], avoid_blocks=empt)
        early = [b for b in grows if b in fn.reach([0], avoid_edges=set(), avoid_blocks=[]) and any(
            (a, d, l) in none_true for a in [0] for d, l in [])]
        grow_before_check = [b for b in grows if any(fn.dominates(b, a) for a, _, _ in none_true)]
        # what one cycle records must still be there when the next cycle's start phase looks it up: the list is emptied
        # before anything is added in the same cycle, and after the lookups
        looks = [b for b in fn.calls_re(r"::(contains|contains_key|get|remove|binary_search)$", cleanup=False)
                 if has_origin(c.prov.of_operand(fn, fn.term(b)["args"][0]), kind="param", key=1, path_suffix=("." + name,))]
        order_ok = all(any(fn.dominates(e, g) and e != g for e in empt) for g in grows) and \
            all(any(fn.dominates(l, e) or not fn.dominates(e, l) for e in empt) for l in looks) and \
            all(not any(fn.dominates(e, l) and not fn.on_cycle(e) for e in empt) for l in looks)
        ctx.check(order_ok and bool(grows), rule, HC, fn.loc(empt[0]) if empt else fn.span,
                  "`%s` is emptied after this cycle's lookups and before this cycle's additions (entries live exactly until the "
                  "next cycle's start phase)" % name, "lookups %s < clear %s < additions %s" % (
                      [fn.loc(b) for b in looks], [fn.loc(b) for b in empt], [fn.loc(b) for b in grows]),
                  "an addition at %s is not preceded by the clear at %s (or a lookup follows the clear): ids recorded in this cycle are "
                  "wiped before the next cycle can see them -- a DropCollect read one cycle before its StartCollect no longer "
                  "suppresses the trace" % ([fn.loc(b) for b in grows], [fn.loc(b) for b in empt]), extra="other-order-" + name)
        ctx.check(ok and bool(empt) and not grow_before_check, rule, HC, fn.loc(empt[0]) if empt else fn.span,
                  "`%s` (%s) is emptied on every cycle past the reporter check, and is not grown before that check" % (name, f["ty"].split("<")[0].rsplit("::", 1)[-1]),
                  "cleared at %s, grown at %s" % ([fn.loc(b) for b in empt], [fn.loc(b) for b in grows]),
                  "a cycle can return at bb%s without emptying `%s`: it grows with the number of traces ever finished" % (wit, name),
                  extra="other-" + name)


def rule_map_ops(ctx, c, rule):
    """C08-R2: who grows and who shrinks the active-collector map."""
    fn = c.fn
    GROW = {"insert", "entry", "extend", "get_or_insert_with", "try_insert", "raw_entry_mut", "extend_one"}
    allops = []
    for g in crate_fns(c):
        for b, op, role in map_ops(c, g):
            allops.append((g, b, op, role))
    grows = [(g, b, op, role) for g, b, op, role in allops if op in GROW]
    ins = [(g, b) for g, b, op, role in grows if op == "insert" and role == "start" and g is fn]
    if not ins:
        # the same insertion written as `map.extend(start_collects.drain(..).filter(keep).map(|s| (s.collect_id, ..)))`: one entry per
        # start that passes the filter, keyed by the start's id, nothing selected or added besides
        for g, b, op, role in grows:
            if op == "extend" and role == "start" and g is fn:
                src = c.prov.of_operand(fn, fn.term(b)["args"][1])
                via = {v[1].rsplit("::", 1)[1] for o in src for v in o.via if v[0] == "call" and "Iterator" in v[1]}
                if via <= {"filter", "map", "into_iter", "by_ref"} and "map" in via:
                    ins.append((g, b))
    ctx.check(len(grows) == 1 and len(ins) == 1, rule, HC, fn.loc(ins[0][1]) if ins else fn.span,
              "the only operation that grows active_collectors is one insert keyed by StartCollect.collect_id",
              "", "growing operations: %s" % [(g.path, g.loc(b), op, role) for g, b, op, role in grows], extra="grow")
    # commit removal is unconditional per CommitCollect
    rem_commit = [(b) for g, b, op, role in allops if g is fn and op == "remove" and role == "commit"]
    ctx.check(bool(rem_commit), rule, HC, fn.loc(rem_commit[0]) if rem_commit else fn.span,
              "every CommitCollect removes its collector from the map", "remove at %s" % [fn.loc(b) for b in rem_commit],
              "no HashMap::remove keyed by CommitCollect.collect_id", extra="remove-commit")
    for b in rem_commit:
        # from the Some edge of the loop's next(), the remove is passed before the next iteration
        nexts = [x for x in fn.calls_re(r"Iterator>?::next$", cleanup=False)
                 if c.from_role(c.prov.of_operand(fn, fn.term(x)["args"][0]), "commit")]
        ok = True
        for x in nexts:
            for sb in result_switches(fn, x):
                some = fn.variant_edges(sb, ["Some"])
                r = fn.reach([d for _, d, _ in some], avoid_blocks=[b])
                if x in r or r & set(fn.returns()):
                    ok = False
        ctx.check(ok and bool(nexts), rule, HC, fn.loc(b),
                  "the commit removal is unconditional (no commit leaves its entry behind)", "",
                  "a commit iteration can skip the removal", extra="remove-commit-uncond")
    rem_drop = [b for g, b, op, role in allops if g is fn and op == "remove" and role == "drop"]
    ctx.check(bool(rem_drop), rule, HC, fn.span, "DropCollect removes the trace's collector", "", "no removal keyed by DropCollect",
              extra="remove-drop")
    # span_collections grows only in the submit phase, danglings only in amend_*
    sc = []
    for g in crate_fns(c):
        for b in g.calls_re(r"alloc::vec::Vec::<T, A>::(push|insert|extend|append)$|Extend<.*>>::extend$", cleanup=False):
            t = g.term(b)
            if "Vec<fastrace::collector::global_collector::SpanCollection>" in t["arg_tys"][0]:
                src = c.prov.of_operand(g, t["args"][0])
                if has_origin(src, path_suffix=(".span_collections",)):
                    sc.append((g, b))
    ctx.check(bool(sc) and all(g is fn for g, _ in sc), rule, HC, fn.span,
              "ActiveCollector.span_collections grows only by pushes in handle_commands' submit phase",
              "%d push sites" % len(sc), "other growth sites: %s" % [(g.path, g.loc(b)) for g, b in sc if g is not fn], extra="span_collections")
    dg = []
    for g in c.facts.fns.values():
        if g.crate != "fastrace":
            continue
        for b in g.calls_re(r"HashMap::<K, V, S, A>::(entry|insert|extend)$", cleanup=False):
            if "DanglingItem" in g.term(b)["arg_tys"][0]:
                dg.append(g.path)
    holders = sorted(a["path"] for a in c.facts.adts.values() for v in a["variants"] for f in v["fields"]
                     if "DanglingItem" in f["ty"] and "HashMap" in f["ty"] and not f["ty"].lstrip().startswith("&"))      # owning, not borrowing
    ctx.check(holders == ["fastrace::collector::global_collector::ActiveCollector"], rule, "fastrace::collector::global_collector::ActiveCollector", "-",
              "parked attachments live only inside the per-trace ActiveCollector (they die with their trace)", "%s" % holders,
              "types holding a danglings map: %s" % holders, extra="danglings-holder")
    ok = bool(dg) and all(re.search(r"global_collector::amend_(local_)?span$", p) for p in dg)
    ctx.check(ok, rule, "fastrace::collector::global_collector", fn.span,
              "danglings maps grow only in amend_span / amend_local_span", "sites: %s" % sorted(set(dg)),
              "growth sites: %s" % sorted(set(dg)), extra="danglings")


def rule_insert_tolerates_late_start(ctx, c, rule):
    """C08-R4: a StartCollect read after its CommitCollect/DropCollect must not leave an entry behind."""
    fn = c.fn
    ins = [(b) for b, op, role in map_ops(c, fn) if op == "insert" and role == "start"]
    prov = c.prov
    if not ins:
        # extend form: the membership test is the `filter` on the way from the start vector to the map
        for b, op, role in map_ops(c, fn):
            if op != "extend" or role != "start":
                continue
            src = prov.of_operand(fn, fn.term(b)["args"][1])
            fblocks = sorted({v[2] for o in src for v in o.via if v[0] == "call" and v[1].endswith("Iterator::filter") and v[2] < len(fn.blocks)})
            ok = False
            for fb in fblocks:
                t = fn.term(fb)
                cd = prov._closure_def(fn, t["args"][1]) if t["k"] == "call" and len(t["args"]) > 1 else None
                if not cd:
                    continue
                ret = prov.resolve_upvars(cd[0], prov.of_local(cd[0], 0))
                dep_item = any(o.kind == "param" and o.key == 2 for o in prov.of_local(cd[0], 0))
                dep_state = any(o.kind == "param" and o.key == 1 and o.path and o.path[0] not in
                                ("." + c.roles["start"], "." + c.roles["config"], "." + c.roles["reporter"]) for o in ret) or \
                    any(v[0] == "call" and re.search(r"(HashSet|BTreeSet|HashMap|Vec)(::<.*>)?::(contains|contains_key|binary_search)", v[1]) for o in ret for v in o.via)
                ok = ok or (dep_item and dep_state)
            ctx.check(ok, rule, HC, fn.loc(b),
                      "the insert for a StartCollect is conditional on the id not having been committed or dropped already "
                      "(a trace's start and commit travel through different threads' queues and receivers are drained one "
                      "after another, so a start can be read one cycle after its commit)",
                      "filtered by a membership test before the map is extended", "extend of active_collectors from the start vector without a "
                      "filter on collector state: a start read after its commit is inserted and never removed", extra="insert")
            return
        ctx.fail(rule, HC, fn.span, "StartCollect inserts an active collector", "anchor lost", extra="insert-anchor")
        return
    for b in ins:
        # accepted: the insert is guarded by a test whose value depends on the start id and on collector state
        # other than the start vector itself (a tombstone / finished-set lookup)
        guards = set()
        for sb in range(len(fn.blocks)):
            t = fn.term(sb)
            if t["k"] != "switch" or t["discr"]["k"] == "const":
                continue
            src = prov.of_operand(fn, t["discr"])
            dep_start = c.from_role(src, "start")
            dep_state = any(o.kind == "param" and o.key == 1 and o.path and o.path[0] not in
                            ("." + c.roles["start"], "." + c.roles["config"], "." + c.roles["reporter"]) for o in src)
            if dep_start and dep_state:
                for (d, lab) in fn.edges(sb):
                    guards.add((sb, d, lab))
        ok = bool(guards) and fn.guarded([b], guards)
        ctx.check(ok, rule, HC, fn.loc(b),
                  "the insert for a StartCollect is conditional on the id not having been committed or dropped already "
                  "(a trace's start and commit travel through different threads' queues and receivers are drained one "
                  "after another, so a start can be read one cycle after its commit)",
                  "guarded by a membership test",
                  "unconditional active_collectors.insert(start id): history -- thread A creates a root after the collector "
                  "passed A's receiver and hands it to B; B drops it; the collector reads B's CommitCollect in this cycle "
                  "and A's StartCollect in the next: the entry is inserted after its commit and never removed",
                  extra="insert")


def rule_anchor(ctx, c, rule):
    """C18-R2: one clock anchor per cycle feeds all conversions."""
    fn = c.fn
    anchors = fn.calls_re(r"fastant::instant::Anchor::new$", cleanup=False)
    ctx.check(len(anchors) == 1 and not fn.on_cycle(anchors[0]), rule, HC, fn.loc(anchors[0]) if anchors else fn.span,
              "Anchor::new() is called once per cycle, outside every loop", "",
              "%d Anchor::new sites; on a loop: %s" % (len(anchors), [fn.on_cycle(b) for b in anchors]), extra="once")
    if anchors:
        al = fn.term(anchors[0])["dest"]["l"]
        for b, k, t in c.post_sites():
            rl, _ = root_local(fn, t["args"][1])
            ctx.check(rl == al, rule, HC, fn.loc(b), "the %s release converts with the cycle's anchor" % k, "",
                      "anchor argument is _%d, cycle anchor is _%d" % (rl, al), extra="arg-" + k)


def rule_cycle_exists(ctx, c, rule):
    """C01-R8: a background cycle exists and flush() runs one."""
    facts = c.facts
    start = facts.fn(GC + "::start")
    if start is None:
        ctx.fail(rule, GC + "::start", "-", "GlobalCollector::start exists", "anchor lost", extra="anchor")
    else:
        spawns = start.calls_re(r"thread::(builder::)?Builder::spawn(_scoped|_unchecked)?$|thread::(functions::)?spawn$", cleanup=False)
        ok = False
        detail = "no thread spawn"
        for sp in spawns:
            t = start.term(sp)
            cd = c.prov._closure_def(start, t["args"][-1])
            if not cd:
                continue
            cf, agg = cd
            hc = sites_star(facts, cf, lambda g, tt: tt["callee"] == HC)
            sl = cf.calls_re(r"thread::(functions::)?sleep$", cleanup=False)
            on_cycle = [b for b in hc if cf.on_cycle(b)]
            no_exit = all(not (cf.reach([b]) & set(cf.returns())) for b in on_cycle)
            fed = False
            for s in sl:
                src = c.prov.of_operand(cf, cf.term(s)["args"][0])
                fed = fed or any((o.path and ".report_interval" in o.path) or
                                 (o.kind == "upvar" and "report_interval" in str(o.key)) for o in src)
            same_loop = all(any(s in cf.reach([b]) and b in cf.reach([s]) for s in sl) for b in on_cycle)
            # the pause is the interval minus the time the cycle took, measured from before the cycle
            period = False
            for s in sl:
                src = c.prov.of_operand(cf, cf.term(s)["args"][0])
                subs = [v[2] for o in src for v in o.via if v[0] == "call" and re.search(r"Duration::saturating_sub$|Duration::checked_sub$", v[1])]
                nows = [v[2] for o in src for v in o.via if v[0] == "call" and re.search(r"Instant::now$", v[1])] + \
                    [x for x in cf.calls_re(r"fastant::instant::Instant::now$|time::Instant::now$", cleanup=False)]
                els = [v for o in src for v in o.via if v[0] == "call" and re.search(r"Instant::elapsed$", v[1])]
                no_scale = not any(v[0] == "binop" and v[1] in ("Mul", "MulWithOverflow", "Shl") for o in src for v in o.via) and \
                    not any(v[0] == "call" and re.search(r"Duration::(mul_f\d+|saturating_mul|checked_mul)$|ops::arith::Mul", v[1]) for o in src for v in o.via)
                period = period or (bool(subs) and bool(els) and bool(nows) and no_scale and
                                    all(any(cf.dominates(n, b) for n in nows) for b in on_cycle))
            ok = bool(on_cycle) and no_exit and bool(sl) and fed and same_loop and period
            detail = "handle_commands on cycle: %s, loop has no return: %s, sleep on the same loop: %s, fed by report_interval: %s, " \
                     "pause = interval - elapsed since before the cycle (unscaled): %s" % (bool(on_cycle), no_exit, same_loop, fed, period)
        ctx.check(ok, rule, start.path, start.span,
                  "set_reporter starts a thread that runs handle_commands in an endless loop, sleeping by Config.report_interval",
                  detail, detail, extra="loop")
        # the collector is installed before the thread is spawned and REPORTER_READY is set after start
    fl = facts.fn("fastrace::collector::global_collector::flush")
    if fl is None:
        ctx.fail(rule, "fastrace::collector::global_collector::flush", "-", "flush exists", "anchor lost", extra="anchor-flush")
        return
    spawns = fl.calls_re(r"thread::(builder::)?Builder::spawn(_scoped|_unchecked)?$|thread::(functions::)?spawn$", cleanup=False)
    joins = fl.calls_re(r"thread::(join_handle::)?JoinHandle::<T>::join$", cleanup=False)
    runs = False
    for sp in spawns:
        cd = c.prov._closure_def(fl, fl.term(sp)["args"][-1])
        if cd and sites_star(facts, cd[0], lambda g, tt: tt["callee"] == HC):
            runs = True
    # the cycle is not skipped when the collector is busy: the helper waits for the collector lock
    fl_bodies = [fl] + facts.closures_of(fl)
    trylocks = [(g.path, g.loc(b)) for g in fl_bodies for b in g.calls_re(r"::try_lock(_for|_until)?$", cleanup=False)]
    locks = [(g.path, g.loc(b)) for g in fl_bodies for b in g.calls_re(r"lock_api::mutex::Mutex::<R, T>::lock$", cleanup=False)]
    ctx.check(bool(locks) and not trylocks, rule, fl.path, fl.span,
              "flush() waits for the collector lock (a cycle that is already running does not make it return without running one)",
              "lock at %s" % locks, "try_lock at %s: when the background cycle holds the lock flush() returns without delivering "
              "what finished after that cycle's drain" % trylocks, extra="flush-waits")
    direct = sites_star(facts, fl, lambda g, tt: tt["callee"] == HC)
    ok_join = bool(joins) and all(fl.must_pass([(sp, fl.term(sp)["target"])], joins)[0] for sp in spawns)
    ctx.check((runs and ok_join) or bool(direct), rule, fl.path, fl.span,
              "flush() runs one collector cycle and waits for it (helper thread joined before returning)",
              "spawn+join" if runs else "direct call", "runs handle_commands: %s, joined on every path: %s" % (runs, ok_join), extra="flush")


def rule_registry_in_place(ctx, c, rule):
    """C01-R5 / C08-R3: the receiver registry is only pushed to (registration) and filtered in place under its lock;
    it is never moved out, replaced or cleared, so a thread that registers during a drain is not forgotten."""
    facts = c.facts
    REG = r"alloc::vec::Vec<fastrace::util::spsc::Receiver<fastrace::collector::command::CollectCommand>>"
    ALLOWED = r"(alloc::vec::Vec::<T, A>::(push|retain|retain_mut|len|is_empty|iter|iter_mut|capacity|reserve)|DerefMut>?::deref_mut|Deref>?::deref)$"
    bad = []
    n = 0
    for g in facts.fns.values():
        if g.crate != "fastrace":
            continue
        for b in g.calls():
            t = g.term(b)
            if g.blocks[b]["cleanup"] or not t.get("arg_tys"):
                continue
            if not any(re.search(REG, a) for a in t["arg_tys"]):
                continue
            n += 1
            if not re.search(ALLOWED, t["callee"]) and not re.search(r"lock_api::mutex::Mutex::<R, T>::lock$", t["callee"]):
                bad.append((g.path, g.loc(b), t["callee"]))
        # whole-vector stores through the guard
        for bi, blk in enumerate(g.blocks):
            for s in blk["stmts"]:
                if s["k"] == "assign" and s["lhs"]["p"] == ["*"]:
                    l = s["lhs"]["l"]
                    if l < len(g.locals) and re.search(r"^&mut " + REG + "$", g.locals[l]):
                        bad.append((g.path, s["span"], "assignment of a whole Vec<Receiver> through the registry guard"))
    ctx.check(not bad and n >= 2, rule, "fastrace::collector::global_collector::SPSC_RXS", "-",
              "the receiver registry is only pushed to and retained in place (never taken, replaced, drained or cleared)",
              "%d uses, all push/retain/deref" % n, "%s" % bad[:4], extra="registry-ops")
    rs = c.retain_site()
    if rs is None:
        return
    b, cf, agg = rs
    fn = c.fn
    root, _ = root_local(fn, fn.term(b)["args"][0])
    sd = fn.single_def(root)
    under_lock = bool(sd) and sd[1] == "term" and re.search(r"lock_api::mutex::Mutex::<R, T>::lock$", sd[2]["callee"]) and \
        any(o.kind == "static" and str(o.key).endswith("::SPSC_RXS") for o in c.prov.of_operand(fn, sd[2]["args"][0]))
    ctx.check(under_lock, rule, HC, fn.loc(b),
              "the drain filters the registry itself while holding its lock (retain_mut on the locked Vec, not on a copy moved out of it)",
              "receiver list is _%d = SPSC_RXS.lock()" % root, "retain_mut operates on _%d (%s), which is not the SPSC_RXS guard" % (root, fn.locals[root]),
              extra="registry-locked")


def rule_stale_isolated(ctx, c, rule):
    """Each stale span collection is post-processed on its own with a fresh danglings map: the copies of one pushed
    local-span forest carry the same span ids, so a map shared between them would give one copy all the attachments."""
    fn = c.fn
    for b, k, t in c.post_sites():
        if k != "stale":
            continue
        src = c.prov.of_operand(fn, t["args"][0])
        per_elem = any(v[0] == "call" and re.search(r"Iterator>?::next$", v[1]) for o in src for v in o.via)
        dsrc = c.prov.of_operand(fn, t["args"][3])
        news = [v[2] for o in dsrc for v in o.via if v[0] == "call" and re.search(r"HashMap::<K, V>::new$|Default>::default$", v[1])]
        news += [x for x in fn.calls_re(r"HashMap::<K, V>::new$", cleanup=False) if root_local(fn, t["args"][3])[0] == fn.term(x)["dest"]["l"]]
        fresh = bool(news) and all(fn.on_cycle(x) for x in news)
        ctx.check(per_elem and fresh and fn.on_cycle(b), rule, HC, fn.loc(b),
                  "every stale span collection is converted on its own, with its own fresh danglings map",
                  "one postprocess call per element, HashMap::new inside the loop",
                  "per-element: %s, fresh map per element: %s -- with a shared map the first of several identical pushed forests "
                  "collects every copy's events/properties" % (per_elem, fresh), extra="stale-isolated")
