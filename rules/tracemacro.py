"""C15: the #[trace] expansion corpus (config X) compared with unannotated twins. Nothing is executed."""
import json
import os
import re

from . import build
from .core import Prov, has_origin, origin_strs, root_local, const_value

CORPUS = os.path.join(build.VERIF, "corpus", "trace_shapes")
MARK = "trace_shapes::marker::"


def fn_path(shape, which):
    mod, name = shape["module"], shape[which]
    if name.startswith("<impl Run for "):
        who = name[len("<impl Run for "):].split(">")[0]
        return "<trace_shapes::%s::%s as trace_shapes::%s::Run>::run" % (mod, who, mod)
    return "trace_shapes::%s::%s" % (mod, name)


def bodies_under(facts, path):
    return [f for p, f in facts.fns.items() if p == path or p.startswith(path + "::")]


def marker_calls(fns):
    out = []
    for f in fns:
        for b in f.calls():
            t = f.term(b)
            if t["callee"].startswith(MARK) and not f.blocks[b]["cleanup"]:
                consts = tuple(a.get("repr") for a in t["args"] if a["k"] == "const")
                out.append((t["callee"], consts))
    return sorted(out)


def norm_sig(f, mod):
    def n(s):
        return s.replace("trace_shapes::%s::" % mod, "").replace("traced", "F").replace("plain", "F").replace("Traced", "W").replace("Plain", "W")
    return ([n(x) for x in f.j.get("inputs", [])], n(f.j.get("output", "")), f.j.get("generics"),
            [n(x) for x in f.j.get("predicates", [])], f.j.get("asyncness"))


def str_const(fn, op):
    """The string literal an operand denotes (through copies/reborrows), or None."""
    if op["k"] == "const":
        r = op.get("repr", "")
        return r[1:-1] if r.startswith('"') and r.endswith('"') else None
    if op["k"] in ("copy", "move"):
        l, _ = root_local(fn, op)
        sd = fn.single_def(l)
        if sd and sd[1] != "term" and sd[2]["k"] == "assign" and sd[2]["rv"]["k"] == "use" and sd[2]["rv"]["op"]["k"] == "const":
            return str_const(fn, sd[2]["rv"]["op"])
    return None


def check_all(ctx, facts):
    prov = Prov(facts)
    with open(os.path.join(CORPUS, "shapes.json")) as fh:
        shapes = json.load(fh)
    ctx.floor("R1", "trace_shapes", len(shapes), 65, "corpus shapes")
    combos = {(s["template"], s["name_kind"], tuple(p[0] for p in s["props"])) for s in shapes}
    ctx.analysed.setdefault("X", {})["template_x_name_x_props_combinations"] = len(combos)
    n_checked = 0
    for sh in shapes:
        mod = sh["module"]
        tp, pp = fn_path(sh, "fn"), fn_path(sh, "twin")
        tf, pf = facts.fn(tp), facts.fn(pp)
        if tf is None or pf is None:
            ctx.fail("R1", tp, "-", "corpus function and twin exist in the expanded program", "anchor lost: %s / %s" % (tf, pf), extra="anchor")
            continue
        n_checked += 1
        tbodies = bodies_under(facts, tp)
        pbodies = bodies_under(facts, pp)
        # ---------------- R1 signature
        ctx.check(norm_sig(tf, mod) == norm_sig(pf, mod), "R1", tp, tf.span,
                  "the annotated function keeps the signature, generics, bounds and asyncness of the plain function",
                  "%s" % (norm_sig(tf, mod)[:2],), "traced %s vs plain %s" % (norm_sig(tf, mod), norm_sig(pf, mod)), extra="sig")
        # ---------------- R2 body calls
        tm, pm = marker_calls(tbodies), marker_calls(pbodies)
        ctx.check(tm == pm and bool(tm), "R2", tp, tf.span,
                  "the body is embedded once, unmodified in its calls: same multiset of body calls (callee, constant arguments) as the twin",
                  "%d calls" % len(tm), "traced %s vs plain %s" % (tm, pm), extra="calls")
        # where do the body calls live?
        tmpl = sh["template"]
        at = sh.get("async_trait", False)
        if tmpl == "sync":
            body_fn = tf
            wrap_fn = tf
        else:
            # async fn: coroutine closure#0 is the fn body; the user's block is the inner async move block
            if at:
                wrap_fn = tf
                inner = [f for f in tbodies if f.j.get("coroutine") and f.path.count("{closure#") == 1]
            else:
                cands = [f for f in tbodies if f.path == tp + "::{closure#0}"]
                wrap_fn = cands[0] if cands else None
                inner = [f for f in tbodies if f.j.get("coroutine") and f.path.startswith(tp + "::{closure#0}::{closure#")]
            body_fn = inner[0] if len(inner) == 1 else None
            if wrap_fn is None or body_fn is None:
                ctx.fail("R3", tp, tf.span, "async expansion has a wrapper body and exactly one inner async block",
                         "wrapper %s inner %s" % (wrap_fn, [f.path for f in inner]), extra="shape")
                continue
            inner_marks = marker_calls([f for f in tbodies if f.path == body_fn.path or f.path.startswith(body_fn.path + "::")])
            if sh.get("prefix_statements"):
                # statements written before the pinned future legitimately run before the span exists
                ptw = [f for f in pbodies if f.j.get("coroutine")]
                twin_inner = marker_calls([f for f in pbodies if ptw and (f.path == ptw[0].path or f.path.startswith(ptw[0].path + "::"))])
                ctx.check(inner_marks == twin_inner, "R2", tp, tf.span, "the calls of the async block are the ones of the twin's async block", "",
                          "inner block calls %s vs twin's block %s" % (inner_marks, twin_inner), extra="inner-calls")
            else:
                ctx.check(inner_marks == pm, "R2", tp, tf.span, "all body calls are inside the inner `async move` block (nothing of the body runs outside the span)",
                          "", "inner block calls %s vs twin %s" % (inner_marks, pm), extra="inner-calls")
        # ---------------- R3 wrapper shape
        no_catch = not any(f.calls_re(r"panic::catch_unwind$|panicking::try$") for f in tbodies)
        ctx.check(no_catch, "R3", tp, tf.span, "the wrapper never catches unwinding (panics propagate as in the plain function)", "", "catch_unwind present", extra="catch")
        name_op = None
        name_fn = None
        if tmpl == "sync":
            ent = wrap_fn.calls_re(r"fastrace::local::local_span::LocalSpan::enter_with_local_parent$", cleanup=False)
            g = wrap_fn.local_by_name("__guard__")
            marks = [b for b in wrap_fn.calls() if wrap_fn.term(b)["callee"].startswith(MARK) and not wrap_fn.blocks[b]["cleanup"]]
            user = [b for b in wrap_fn.calls() if wrap_fn.term(b)["ck"] == "unresolved" and not wrap_fn.blocks[b]["cleanup"]]
            ok = len(ent) == 1 and g is not None
            detail = "enter sites %s guard %s" % (ent, g)
            if ok:
                e = ent[0]
                ok = all(wrap_fn.dominates(e, m) for m in marks + user)
                rel = [b for b, blk in enumerate(wrap_fn.blocks) if blk["term"]["k"] == "drop" and blk["term"]["place"]["l"] == g
                       and not blk["term"]["place"]["p"] and not blk["cleanup"]]
                relc = [b for b, blk in enumerate(wrap_fn.blocks) if blk["term"]["k"] == "drop" and blk["term"]["place"]["l"] == g
                        and not blk["term"]["place"]["p"] and blk["cleanup"]]
                gdefs = [d[0] for d in wrap_fn.defs(g)]
                # live over every body call: none is reachable after a release
                after = set()
                for r in rel:
                    after |= wrap_fn.reach([(r, wrap_fn.term(r)["target"])])
                live_ok = not (after & set(marks + user))
                ret_ok = bool(gdefs) and wrap_fn.must_pass([(gdefs[0], wrap_fn.term(gdefs[0]).get("target"))], rel)[0] if wrap_fn.term(gdefs[0]).get("target") is not None else False
                unw_ok = True
                for m in marks + user:
                    t = wrap_fn.term(m)
                    if isinstance(t.get("unwind"), int):
                        unw_ok = unw_ok and wrap_fn.must_pass([(m, t["unwind"])], relc, cleanup=True,
                                                              exits=[b for b in range(len(wrap_fn.blocks)) if wrap_fn.term(b)["k"] in ("resume", "abort")])[0]
                ok = ok and live_ok and ret_ok and unw_ok
                detail = "guard live over %d body calls: %s, released on every return: %s, released on unwind: %s" % (len(marks + user), live_ok, ret_ok, unw_ok)
                name_op, name_fn = wrap_fn.term(e)["args"][0], wrap_fn
            ctx.check(ok, "R3", tp, tf.span,
                      "sync template: exactly one LocalSpan::enter_with_local_parent dominating every body call; __guard__ is live over "
                      "the whole body and dropped on every return path (early return, ?) and on the unwind path", detail, detail, extra="sync-wrapper")
        elif tmpl == "in_span":
            ent = wrap_fn.calls_re(r"fastrace::span::Span::enter_with_local_parent$", cleanup=False)
            ins = wrap_fn.calls_re(r"fastrace::future::FutureExt::in_span$", cleanup=False)
            ok = len(ent) == 1 and len(ins) == 1
            detail = "enter sites %s in_span sites %s" % (ent, ins)
            if ok:
                t = wrap_fn.term(ins[0])
                span_src = prov.of_operand(wrap_fn, t["args"][1])
                from_enter = any(v[0] == "call" and v[1].endswith("Span::enter_with_local_parent") and v[2] == ent[0] for o in span_src for v in o.via) or \
                    any(o.kind == "call" and str(o.key).endswith("Span::enter_with_local_parent") for o in span_src)
                cd = prov._closure_def(wrap_fn, t["args"][0])
                inner_ok = cd is not None and cd[0].path == body_fn.path
                # the adapter's output is the function's result
                if at:
                    ret = prov.of_local(wrap_fn, 0)
                    out_ok = any(v[0] == "call" and v[1].endswith("FutureExt::in_span") for o in ret for v in o.via) and \
                        bool(wrap_fn.calls_re(r"alloc::boxed::Box::<T>::pin$", cleanup=False))
                else:
                    polls = [b for b in wrap_fn.calls() if "fastrace::future::InSpan<" in wrap_fn.term(b)["callee"] and wrap_fn.term(b)["callee"].endswith("::poll")]
                    ret = prov.of_local(wrap_fn, 0)
                    out_ok = len(polls) == 1 and any(v[0] == "call" and v[2] == polls[0] for o in ret for v in o.via)
                no_other_span = not [f for f in tbodies if f is not wrap_fn and f.calls_re(r"fastrace::(span::Span|local::local_span::LocalSpan)::enter_with_local_parent$")]
                ok = from_enter and inner_ok and out_ok and no_other_span
                detail = "span from enter: %s, wraps the inner block: %s, adapter output is the result: %s, no second span: %s" % (from_enter, inner_ok, out_ok, no_other_span)
                name_op, name_fn = wrap_fn.term(ent[0])["args"][0], wrap_fn
            ctx.check(ok, "R3", tp, tf.span,
                      "in_span template: one Span::enter_with_local_parent outside the inner block, handed (after optional with_properties) "
                      "to exactly one FutureExt::in_span around the inner block, whose output is the function's result", detail, detail, extra="async-wrapper")
        else:
            eop = wrap_fn.calls_re(r"fastrace::future::FutureExt::enter_on_poll$", cleanup=False)
            spans = [f for f in tbodies if f.calls_re(r"fastrace::span::Span::(enter_with_local_parent|root|enter_with_parent)$")]
            ok = len(eop) == 1 and not spans
            detail = "enter_on_poll sites %s, Span creations in %s" % (eop, [f.path for f in spans])
            if ok:
                t = wrap_fn.term(eop[0])
                cd = prov._closure_def(wrap_fn, t["args"][0])
                ok = cd is not None and cd[0].path == body_fn.path
                name_op, name_fn = t["args"][1], wrap_fn
            ctx.check(ok, "R3", tp, tf.span, "enter_on_poll template: exactly one FutureExt::enter_on_poll(inner block, name), no Span is created",
                      detail, detail, extra="poll-wrapper")
        # ---------------- R4 name
        if name_op is not None:
            nk = sh["name_kind"]
            if nk in ("short", "named", "braces"):
                # enter_on_poll takes impl Into<Cow>: the literal may pass through Into::into
                lit = str_const(name_fn, name_op)
                if lit is None:
                    src = prov.of_operand(name_fn, name_op)
                    lits = [str(o.key)[1:-1] for o in src if o.kind == "const" and str(o.key).startswith('"')]
                    lit = lits[0] if len(lits) == 1 else None
                ctx.check(lit == sh["name"], "R4", tp, tf.span, "the span name is %s" % ("the bare identifier" if nk == "short" else "the configured name, verbatim (never formatted)"),
                          repr(lit), "name constant %r, expected %r" % (lit, sh["name"]), extra="name")
            else:
                src = prov.of_operand(name_fn, name_op)
                tn = [v for o in src for v in o.via if v[0] == "call" and v[1].endswith("::type_name_of")]
                if not tn:
                    # the macro's nested helper does more than return the type name (it also slices the suffix off): look through it
                    from .core import inline_calls
                    host = name_fn.path
                    view = inline_calls(facts, name_fn, lambda g: g.path.startswith(host + "::") and g.kind != "Closure" and not g.path.endswith("::f"), depth=2)
                    if view is not name_fn:
                        name_fn = view
                        from .core import Prov as _Prov
                        prov = _Prov(facts)            # (results are memoised per function path: the view needs its own table)
                        src = prov.of_operand(name_fn, name_op)
                std_tn = [v for o in src for v in o.via if v[0] == "call" and re.search(r"core::any::type_name(_of_val)?$", v[1])]
                if not tn and not std_tn and any(o.kind == "call" and re.search(r"core::any::type_name$", str(o.key)) for o in src):
                    # type_name::<F>() takes no argument: the call is the origin itself
                    std_tn = [("call", name_fn.term(b)["callee"], b) for b in name_fn.calls_re(r"core::any::type_name$", cleanup=False)][:1]
                ok = False
                detail = "name does not come from func_path!()"
                parent, f_ok, fdesc = None, False, None
                if tn:
                    callee = tn[0][1]
                    parent = callee[:-len("::type_name_of")]
                    call_t = name_fn.term(tn[0][2])
                    farg = call_t["args"][0]
                    f_ok = farg["k"] == "const" and farg.get("fn") == parent + "::f"
                    fdesc = farg.get("fn")
                elif std_tn:
                    # std::any::type_name_of_val(&f) / type_name::<F>(): the function item is the type argument
                    call_t = name_fn.term(std_tn[0][2])
                    m = [re.search(r"\{([^{}]*(?:\{\{closure\}\}[^{}]*|\{closure#\d+\}[^{}]*)*::f)\}$", ta) for ta in call_t.get("targs", [])]
                    m = [x for x in m if x]
                    if m:
                        fdesc = m[0].group(1)
                        parent = fdesc[:-len("::f")]
                        f_ok = True
                if parent is not None:
                    rng = [x for b in name_fn.calls_re(r"Index(<.*>)?( for str)?>?::index$") for x in prov.of_operand(name_fn, name_fn.term(b)["args"][1])]
                    by_three = any(v[0] == "binop" and v[1] in ("SubWithOverflow", "Sub") and v[2] == 3 for o in rng for v in o.via)
                    # `name.len() - "::f".len()`: the subtrahend is the length of the literal suffix
                    by_len = any(o.kind == "const" and str(o.key) == '"::f"' and any(v[0] == "call" and v[1].endswith("::len") for v in o.via) and
                                 any(v[0] == "binop" and v[1] in ("SubWithOverflow", "Sub") for v in o.via) for o in rng)
                    sliced = any(v[0] == "call" and re.search(r"Index(<.*>)?( for str)?>?::index$", v[1]) for o in src for v in o.via) and (by_three or by_len)
                    ok = f_ok and sliced and parent == re.sub(r"#\d+$", "", name_fn.path)
                    detail = "type name of %s in %s, `::f` suffix sliced off: %s" % (fdesc, parent, sliced)
                ctx.check(ok, "R4", tp, tf.span,
                          "the default name is func_path!() evaluated in the function that opens the span (for an async fn: its async body, "
                          "hence the trailing ::{{closure}})", detail, detail, extra="name")
        # ---------------- R5 properties
        want = sh["props"]
        wp = [f for f in tbodies for b in f.calls_re(r"::with_properties$", cleanup=False)
              if f.term(b)["callee"] in ("fastrace::span::Span::with_properties", "fastrace::local::local_span::LocalSpan::with_properties")]
        if not want:
            ctx.check(not wp, "R5", tp, tf.span, "without `properties` the expansion adds none", "", "with_properties called in %s" % [f.path for f in wp], extra="props")
        else:
            ok = len(wp) == 1
            detail = "with_properties sites: %d" % len(wp)
            if ok:
                f = wp[0]
                b = [x for x in f.calls_re(r"::with_properties$", cleanup=False)][0]
                cd = prov._closure_def(f, f.term(b)["args"][1])
                ok = cd is not None
                if ok:
                    cf = cd[0]
                    froms = sorted(cf.calls_re(r"convert::From<.*>( for alloc::borrow::Cow<.*>)?>?::from$", cleanup=False))
                    seq = []
                    for x in froms:
                        t = cf.term(x)
                        lit = str_const(cf, t["args"][0])
                        if lit is not None:
                            seq.append(("lit", lit))
                        else:
                            src = prov.of_operand(cf, t["args"][0])
                            via_fmt = any(v[0] == "call" and re.search(r"alloc::fmt::format$|fmt::format::format_inner$|Arguments::<'a>::new$|must_use$", v[1]) for o in src for v in o.via)
                            ups = sorted({str(o.key) for o in src if o.kind == "upvar"})
                            seq.append(("fmt", tuple(ups), via_fmt))
                    exp = []
                    for k, v, kind, lit in want:
                        exp.append(("lit", k))
                        exp.append(("lit", lit) if kind == "lit" else ("fmt",))
                    got = [(s[0], s[1]) if s[0] == "lit" else ("fmt",) for s in seq]
                    fmt_ok = all(s[2] and s[1] and all(u in ("x",) for u in s[1]) for s in seq if s[0] == "fmt")
                    # format strings (from the AST) of the closure are the configured ones
                    fm = [x for x in facts.formats if x["crate"] == "trace_shapes" and mod in x["item"]]
                    texts = ["".join(p["lit"] if "lit" in p else "{}" for p in x["pieces"]) for x in fm]
                    want_fmt = [re.sub(r"\{[^{}]*\}", "{}", v) for k, v, kind, lit in want if kind == "fmt"]
                    ok = got == exp and fmt_ok and all(w in texts for w in want_fmt)
                    detail = "closure builds %s; formats %s" % (seq, texts)
            ctx.check(ok, "R5", tp, tf.span,
                      "the with_properties closure builds the configured keys in order; literal values are constants ({{ }} unescaped), "
                      "formatted values are format!(..) over the function's arguments", detail,
                      "%s (expected %s)" % (detail, want), extra="props")
    ctx.floor("R1", "trace_shapes", n_checked, 65, "corpus shapes found in the expanded program")


def macro_inventory(ctx, facts_e):
    """Informational: abort sites in the proc macro itself."""
    fns = [f for f in facts_e.fns.values() if f.crate == "fastrace_macro"]
    aborts = []
    for f in fns:
        for b in f.calls_re(r"core::panicking::|abort_call_site|proc_macro_error2::|Diagnostic::abort"):
            aborts.append((f.path.rsplit("::", 1)[-1], f.loc(b)))
    ctx.analysed.setdefault("E", {})["macro_abort_or_panic_sites"] = len(aborts)
