"""Rules over the future / stream / sink adapters (C13, C14, C03-R5)."""
import re

from .core import Prov, place_str, has_origin, root_local, bool_cond_edges

GUARD_TY = re.compile(r"^core::option::Option<fastrace::span::LocalParentGuard>$|^fastrace::span::LocalParentGuard$")
LOCALSPAN_TY = re.compile(r"^fastrace::local::local_span::LocalSpan$")
OPT_SPAN = "core::option::Option<fastrace::span::Span>"

# method -> finishing condition of the span
#   'ready'      : finish on Poll::Ready(_)
#   'ready_none' : finish on Poll::Ready(None) only
#   'never'      : the method never finishes the span
FINISH = {
    "poll": "ready", "poll_next": "ready_none", "poll_close": "ready",
    "poll_ready": "never", "start_send": "never", "poll_flush": "never",
}


def inner_polls(fn):
    """Unresolved trait-method calls on the wrapped value: this is where user code runs."""
    out = []
    for b in fn.calls():
        t = fn.term(b)
        if t["ck"] == "unresolved" and re.search(r"::(poll|poll_next|poll_ready|start_send|poll_flush|poll_close)$", t["decl"]):
            out.append(b)
    return out


def guard_locals(fn, ty_rx):
    """Locals of the guard type that are produced by a call (temporaries that merely receive a moved guard,
    e.g. the argument of an explicit drop(guard), are aliases and are handled in guard_release_blocks)."""
    return [i for i, t in enumerate(fn.locals) if ty_rx.search(t) and i > fn.arg_count
            and any(d[1] == "term" for d in fn.defs(i))]


def guard_aliases(fn, g):
    """Locals the guard value is moved through whole (`let guard = enter(..)`, a helper's parameter / return slot, the
    argument of drop(guard)): one value, several names."""
    al = {g}
    changed = True
    while changed:
        changed = False
        for blk in fn.blocks:
            for st in blk["stmts"]:
                if st["k"] == "assign" and not st["lhs"]["p"] and st["rv"]["k"] == "use" and st["rv"]["op"]["k"] == "move" \
                        and not st["rv"]["op"]["p"]:
                    a, b = st["lhs"]["l"], st["rv"]["op"]["l"]
                    if (b in al) != (a in al) and fn.locals[a] == fn.locals[b]:
                        al |= {a, b}
                        changed = True
    return al


def guard_release_blocks(fn, g, cleanup=False):
    """Blocks at which the guard value stops being live: Drop terminators on it (under any of its names), or a move of it
    into mem::drop."""
    al = guard_aliases(fn, g)
    out = []
    for b, blk in enumerate(fn.blocks):
        if blk["cleanup"] and not cleanup:
            continue
        t = blk["term"]
        if t["k"] == "drop" and t["place"]["l"] in al and not t["place"]["p"]:
            out.append(b)
        if t["k"] == "call" and re.search(r"(^|::)mem::drop$", t["callee"]):
            for a in t["args"]:
                if a["k"] == "move" and a["l"] in al and not a["p"]:
                    out.append(b)
    return out


def check_adapter(ctx, facts, fn, rule_prefix, want_scope=True, want_finish=True, want_order=True, kind="span"):
    """kind='span'  : InSpan-style adapter (guard = Option<LocalParentGuard>, owns Option<Span>)
       kind='local' : EnterOnPoll (guard = LocalSpan, no owned span)"""
    meth = fn.path.rsplit("::", 1)[1]
    prov = Prov(facts)
    polls = [b for b in inner_polls(fn) if not fn.blocks[b]["cleanup"]]
    if len(polls) != 1:
        ctx.fail(rule_prefix + "R1", fn.path, fn.span, "exactly one call into the wrapped value",
                 "found %d unresolved inner poll calls" % len(polls), extra="inner")
        return
    pb = polls[0]
    guards = guard_locals(fn, GUARD_TY if kind == "span" else LOCALSPAN_TY)
    # one guard value may be produced by a call and then moved through other locals: count values, not names
    uniq = []
    for x in guards:
        if not any(x in guard_aliases(fn, y) for y in uniq):
            uniq.append(x)
    guards = uniq
    if want_scope:
        if len(guards) != 1:
            ctx.fail(rule_prefix + "R1", fn.path, fn.span, "exactly one scope guard local",
                     "found %d locals of the guard type" % len(guards), extra="guard")
            return
    if not guards:
        return
    g = guards[0]
    gdefs = [d for d in fn.defs(g) if not (d[2].get("lhs") or d[2].get("dest"))["p"]]
    gdef_blocks = [d[0] for d in gdefs]

    if want_scope:
        # R1a: guard creation dominates the inner poll and calls the scope-opening function
        created_ok = all(fn.dominates(db, pb) and db != pb for db in gdef_blocks) and gdef_blocks
        opener = None
        for (b, i, s) in gdefs:
            if i == "term":
                opener = s
        detail = ""
        opens = False
        if opener is not None:
            if kind == "span":
                # Option::map(span.as_ref(), |s| s.set_local_parent())
                if re.search(r"Option::<T>::map$", opener["callee"]):
                    cd = prov._closure_def(fn, opener["args"][1]) if len(opener["args"]) > 1 else None
                    by_name = len(opener["args"]) > 1 and opener["args"][1]["k"] == "const" and \
                        str(opener["args"][1].get("fn", "")).endswith("fastrace::span::Span::set_local_parent")
                    if by_name or (cd and cd[0].calls_re(r"fastrace::span::Span::set_local_parent$")):
                        src = prov.of_operand(fn, opener["args"][0])
                        opens = has_origin(src, path_suffix=(".span",))
                        detail = "guard = map(%s, closure calling Span::set_local_parent)" % sorted(o.short() for o in src)[:3]
                elif re.search(r"fastrace::span::Span::set_local_parent$", opener["callee"]):
                    opens = True
            else:
                if re.search(r"LocalSpan::enter_with_local_parent$", opener["callee"]):
                    src = prov.of_operand(fn, opener["args"][0])
                    opens = has_origin(src, path_suffix=(".name",))
                    detail = "name argument origins %s" % sorted(o.short() for o in src)[:3]
        ctx.check(created_ok and opens, rule_prefix + "R1", fn.path, fn.loc(pb),
                  "the scope guard is created (from the adapter's own span/name) before the wrapped value is polled",
                  detail, "guard definition blocks %s do not dominate inner poll bb%d, or the guard is not opened "
                  "by set_local_parent/enter_with_local_parent on the adapter's field (%s)" % (gdef_blocks, pb, detail),
                  extra="created")
        # R1b: released on every normal path after the poll, and on the unwind path of the poll
        rel = guard_release_blocks(fn, g)
        t = fn.term(pb)
        ok_n, wit = fn.must_pass([(pb, t["target"])], rel) if t["target"] is not None else (True, None)
        ctx.check(ok_n and rel, rule_prefix + "R1", fn.path, fn.loc(pb),
                  "the scope guard is released on every return path after the inner poll",
                  "release blocks %s" % rel, "a path from the inner poll to return bb%s passes no release of _%d" % (wit, g),
                  extra="released")
        if isinstance(t.get("unwind"), int):
            relc = guard_release_blocks(fn, g, cleanup=True)
            ok_u, witu = fn.must_pass([(pb, t["unwind"])], relc, cleanup=True,
                                      exits=[b for b in range(len(fn.blocks)) if fn.term(b)["k"] in ("resume", "abort")])
            ctx.check(ok_u, rule_prefix + "R1", fn.path, fn.loc(pb),
                      "the scope guard is released when the inner poll unwinds", "",
                      "unwind path from inner poll reaches bb%s without releasing the guard" % witu, extra="unwind")
        else:
            ctx.fail(rule_prefix + "R1", fn.path, fn.loc(pb), "the scope guard is released when the inner poll unwinds",
                     "inner poll has no cleanup edge (%s) although a guard is live" % t.get("unwind"), extra="unwind")
        # inner poll lies inside the live range: not reachable from entry once releases are passed
        r = fn.reach([0], avoid_blocks=rel)
        ctx.check(pb in r, rule_prefix + "R1", fn.path, fn.loc(pb),
                  "the inner poll happens while the guard is live", "", "every path to the inner poll first releases the guard",
                  extra="live")

    if kind != "span":
        return

    takes = [b for b in fn.calls_re(r"option::Option::<T>::take$", cleanup=False)
             if fn.term(b)["arg_tys"] and OPT_SPAN in fn.term(b)["arg_tys"][0]]
    cond = FINISH.get(meth)
    if want_finish and cond is not None:
        if cond == "never":
            ctx.check(not takes, rule_prefix + "R2", fn.path, fn.span,
                      "%s never finishes the adapter's span" % meth, "no Option<Span>::take in the body",
                      "span taken at %s" % [fn.loc(b) for b in takes], extra="finish")
        else:
            # find the switch on the poll result
            res = fn.term(pb)["dest"]["l"]
            sw = None
            for b in range(len(fn.blocks)):
                info = fn.switch_info(b)
                if info and info.get("kind") == "discr" and info["place"]["l"] == res and not info["place"]["p"] \
                        and "Poll<" in info["ty"]:
                    sw = b
                    break
            if sw is None:
                # the result matched behind a reference (`matches!(&res, Poll::Ready(None))` in a helper that was looked through)
                for b in range(len(fn.blocks)):
                    info = fn.switch_info(b)
                    if info and info.get("kind") == "discr" and re.search(r"^(&(mut )?)?core::task::poll::Poll<", info["ty"]) \
                            and not fn.blocks[b]["cleanup"] and root_local(fn, info["place"])[0] == res:
                        sw = b
                        break
            bool_ready = set()
            if sw is None:
                prov2 = prov
                def on_res(o, name):
                    return any(v[0] == "call" and re.search(r"task::poll::Poll::<T>::%s$" % name, v[1]) and
                               root_local(fn, fn.term(v[2])["args"][0])[0] == res for v in o.via)
                bool_ready |= bool_cond_edges(fn, prov2, lambda o: on_res(o, "is_pending"), False)
                bool_ready |= bool_cond_edges(fn, prov2, lambda o: on_res(o, "is_ready"), True)
            if sw is None and bool_ready and takes and cond == "ready":
                g_ok = fn.guarded(takes, bool_ready)
                m_ok, wit = fn.must_pass([(a, d) for a, d, _ in bool_ready], takes)
                ctx.check(g_ok and m_ok, rule_prefix + "R2", fn.path, fn.loc(takes[0]),
                          "the span is taken on Poll::Ready and only then", "guarded by is_pending()/is_ready() edges %s" % sorted((a, b) for a, b, _ in bool_ready),
                          "guarded=%s must_pass=%s (witness bb%s)" % (g_ok, m_ok, wit), extra="finish")
                src = prov.of_operand(fn, fn.term(takes[0])["args"][0])
                ctx.check(has_origin(src, path_suffix=(".span",)), rule_prefix + "R2", fn.path, fn.loc(takes[0]),
                          "the value taken is the adapter's span field", str(sorted(o.short() for o in src)[:3]),
                          "origins %s" % sorted(o.short() for o in src)[:5], extra="field")
            elif sw is None or not takes:
                ctx.fail(rule_prefix + "R2", fn.path, fn.span, "the span is finished exactly at completion",
                         "no match on the poll result (%s) or no Option<Span>::take (%s)" % (sw, takes), extra="finish")
            else:
                ready = set(fn.variant_edges(sw, ["Ready"]))
                pending = set(fn.variant_edges(sw, ["Pending"]))
                fin_edges = ready
                other_edges = set(pending)
                if cond == "ready_none":
                    # nested switch on the Option inside Ready
                    inner = None
                    for b in range(len(fn.blocks)):
                        info = fn.switch_info(b)
                        if info and info.get("kind") == "discr" and root_local(fn, info["place"])[0] == res \
                                and re.search(r"^(&(mut )?)?core::option::Option<", info["ty"]) and not fn.blocks[b]["cleanup"]:
                            inner = b
                    if inner is None:
                        ctx.fail(rule_prefix + "R2", fn.path, fn.span, "the span is finished exactly at end of stream",
                                 "no match on the Option inside Poll::Ready", extra="finish")
                        fin_edges = set()
                    else:
                        fin_edges = set(fn.variant_edges(inner, ["None"]))
                        other_edges |= set(fn.variant_edges(inner, ["Some"]))
                if fin_edges:
                    # (a) take is guarded by the finishing edge
                    g_ok = fn.guarded(takes, fin_edges)
                    # (b) from the finishing edge every path to return takes the span
                    starts = [(a, d) for (a, d, _) in fin_edges]
                    m_ok, wit = fn.must_pass(starts, takes)
                    # (c) not reachable from the non-finishing edges
                    r = set()
                    for (a, d, _) in other_edges:
                        r |= fn.reach([(a, d)])
                    n_ok = not (r & set(takes))
                    ctx.check(g_ok and m_ok and n_ok, rule_prefix + "R2", fn.path, fn.loc(takes[0]),
                              "the span is taken on %s and only then" % ("Poll::Ready(None)" if cond == "ready_none" else "Poll::Ready"),
                              "take at %s guarded by finishing edges %s" % ([fn.loc(b) for b in takes], sorted((a, b) for a, b, _ in fin_edges)),
                              "guarded=%s must_pass=%s (witness bb%s) unreachable_from_other=%s" % (g_ok, m_ok, wit, n_ok),
                              extra="finish")
                    # the taken value is the adapter's own span field
                    src = prov.of_operand(fn, fn.term(takes[0])["args"][0])
                    ctx.check(has_origin(src, path_suffix=(".span",)), rule_prefix + "R2", fn.path, fn.loc(takes[0]),
                              "the value taken is the adapter's span field", str(sorted(o.short() for o in src)[:3]),
                              "origins %s" % sorted(o.short() for o in src)[:5], extra="field")

    if want_order and takes:
        # R3: every non-cleanup drop of an Option<Span> temporary happens after the guard was released
        rel = guard_release_blocks(fn, g)
        span_drops = [b for b in fn.drops(lambda t: t["ty"] == OPT_SPAN) if not fn.blocks[b]["cleanup"]]
        if not span_drops:
            # the taken span may be moved elsewhere (returned / stored); then nothing is finished here
            ctx.ok(rule_prefix + "R3", fn.path, fn.span, "the scope ends before the span is finished",
                   "no drop of a taken span in this body", extra="order")
        r = fn.reach([0], avoid_blocks=rel)
        for sd in span_drops:
            ok = sd not in r
            ctx.check(ok, rule_prefix + "R3", fn.path, fn.loc(sd),
                      "the local-parent scope is released before the adapter's span is finished",
                      "drop of taken span at bb%d is only reachable through a release of guard _%d" % (sd, g),
                      "Option<Span> finished (drop %s at bb%d) while %s _%d (%s) is still live: the last call's local spans "
                      "are submitted after the span (for a root: after the trace's commit)" % (
                          place_str(fn.term(sd)["place"]), sd, fn.locals[g].split("::")[-1], g, fn.local_name(g)),
                      extra="order")


def rule_drop_order(ctx, facts, rule, adt_path):
    """The adapter finishes its span AFTER the wrapped value is torn down when it is dropped unfinished: Rust drops
    fields in declaration order, so the wrapped value must be declared before the span (or a Drop impl must order it)."""
    adt = facts.adts.get(adt_path)
    if adt is None:
        ctx.fail(rule, adt_path, "-", "adapter type exists", "anchor lost", extra="anchor")
        return
    names = [f["name"] for f in adt["variants"][0]["fields"]]
    span_f = [f["name"] for f in adt["variants"][0]["fields"] if re.search(r"Option<fastrace::span::Span>$|^fastrace::span::Span$", f["ty"])]
    inner_f = [f["name"] for f in adt["variants"][0]["fields"] if f["ty"] == "T"]
    has_drop = adt.get("drop") is not None and "PinnedDrop" not in str(adt.get("drop"))
    ok = bool(span_f) and bool(inner_f) and (names.index(inner_f[0]) < names.index(span_f[0]) or has_drop)
    ctx.check(ok, rule, adt_path, adt["span"],
              "dropping an unfinished adapter destroys the wrapped future/stream/sink (and the spans its state owns) before it "
              "finishes the adapter's span", "field order %s" % names,
              "fields are declared %s: the span is dropped first, so spans owned by the suspended state are submitted after the "
              "adapter's span (for a root: after the trace's commit)" % names, extra="drop-order")
